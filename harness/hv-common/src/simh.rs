//! Full-stack scenario infrastructure: a global event sink ordered by a sequence number taken under its
//! lock, virtual time (tokio paused clock, current_thread runtime), a panic hook that records the panic
//! as data, and the process-wide frame hook of elvis-core (feature `verif`).
use serde_json::{json, Value};
use std::future::Future;
use std::sync::Mutex;

pub struct Sink {
    pub events: Vec<Value>,
    pub start: Option<tokio::time::Instant>,
    pub run: u64,
    pub seq: u64,
}

pub static SINK: Mutex<Sink> = Mutex::new(Sink { events: Vec::new(), start: None, run: 0, seq: 0 });
pub static OUT_PATH: Mutex<Option<String>> = Mutex::new(None);

/// microseconds of virtual time since the start of the run
pub fn now_us() -> u64 {
    let s = SINK.lock().unwrap();
    match s.start {
        Some(st) => tokio::time::Instant::now().duration_since(st).as_micros() as u64,
        None => 0,
    }
}

pub fn emit(mut v: Value) {
    // the time is read before the lock is taken; the order of events is the order of `seq`
    let t = {
        let s = SINK.lock().unwrap();
        s.start.map(|st| tokio::time::Instant::now().saturating_duration_since(st).as_micros() as u64)
    };
    let mut s = SINK.lock().unwrap();
    s.seq += 1;
    let o = v.as_object_mut().unwrap();
    o.insert("run".into(), json!(s.run));
    o.insert("i".into(), json!(s.seq));
    o.insert("t".into(), json!(t.unwrap_or(0)));
    s.events.push(v);
}

pub fn begin_run(run: u64, reset: Value) {
    let mut s = SINK.lock().unwrap();
    s.run = run;
    s.seq = 0;
    s.start = None;
    let mut r = reset;
    let o = r.as_object_mut().unwrap();
    o.insert("ev".into(), json!("reset"));
    o.insert("run".into(), json!(run));
    o.insert("i".into(), json!(0));
    o.insert("t".into(), json!(0));
    s.events.push(r);
}

pub fn mark_start() {
    SINK.lock().unwrap().start = Some(tokio::time::Instant::now());
}

pub fn flush_to(path: &str, append: bool) {
    let mut s = SINK.lock().unwrap();
    use std::io::Write;
    if let Some(dir) = std::path::Path::new(path).parent() {
        let _ = std::fs::create_dir_all(dir);
    }
    let f = std::fs::OpenOptions::new().create(true).write(true).append(append).truncate(!append).open(path).expect("open trace");
    let mut w = std::io::BufWriter::new(f);
    for e in s.events.drain(..) {
        serde_json::to_writer(&mut w, &e).unwrap();
        w.write_all(b"\n").unwrap();
    }
    w.flush().unwrap();
}

/// A panic of the code under test is data: it is appended to the trace (with the scenario number) and the
/// trace is flushed, because `run_internet` chains a hook that exits the process.
pub fn install_panic_hook() {
    std::panic::set_hook(Box::new(|info| {
        let loc = info.location().map(|l| format!("{}:{}:{}", l.file(), l.line(), l.column())).unwrap_or_default();
        let msg = if let Some(s) = info.payload().downcast_ref::<&str>() {
            s.to_string()
        } else if let Some(s) = info.payload().downcast_ref::<String>() {
            s.clone()
        } else {
            "?".to_string()
        };
        if let Ok(mut s) = SINK.try_lock() {
            let run = s.run;
            s.seq += 1;
            let i = s.seq;
            s.events.push(json!({"ev":"panic","run":run,"i":i,"t":0,"msg":msg,"loc":loc}));
        }
        if let Some(p) = OUT_PATH.lock().ok().and_then(|p| p.clone()) {
            flush_to(&p, true);
        }
    }));
}

/// Runs a scenario on a fresh single-threaded runtime with the clock paused: timers fire in virtual time.
pub fn run_paused<F: Future>(f: F) -> F::Output {
    let rt = tokio::runtime::Builder::new_current_thread().enable_time().start_paused(true).build().unwrap();
    rt.block_on(f)
}

pub fn run_multi<F: Future>(workers: usize, f: F) -> F::Output {
    let rt = tokio::runtime::Builder::new_multi_thread().worker_threads(workers).enable_time().build().unwrap();
    rt.block_on(f)
}
