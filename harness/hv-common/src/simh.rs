//! Full-stack scenario infrastructure: a global event sink ordered by a sequence number taken under its
//! lock, virtual time (tokio paused clock, current_thread runtime), a panic hook that records the panic
//! as data, and the process-wide frame hook of elvis-core (feature `verif`).
use serde_json::{json, Value};
use std::future::Future;
use std::sync::Mutex;

pub struct Sink {
    pub events: Vec<Value>,
    pub start: Option<tokio::time::Instant>,
    pub run: u64,
    pub seq: u64,
}

pub static SINK: Mutex<Sink> = Mutex::new(Sink { events: Vec::new(), start: None, run: 0, seq: 0 });
pub static OUT_PATH: Mutex<Option<String>> = Mutex::new(None);

/// microseconds of virtual time since the start of the run
pub fn now_us() -> u64 {
    let s = SINK.lock().unwrap();
    match s.start {
        Some(st) => tokio::time::Instant::now().duration_since(st).as_micros() as u64,
        None => 0,
    }
}

pub fn emit(mut v: Value) {
    // the time is read before the lock is taken; the order of events is the order of `seq`
    let t = {
        let s = SINK.lock().unwrap();
        s.start.map(|st| tokio::time::Instant::now().saturating_duration_since(st).as_micros() as u64)
    };
    let mut s = SINK.lock().unwrap();
    s.seq += 1;
    let o = v.as_object_mut().unwrap();
    o.insert("run".into(), json!(s.run));
    o.insert("i".into(), json!(s.seq));
    o.insert("t".into(), json!(t.unwrap_or(0)));
    s.events.push(v);
    LAST_EVENT.store(epoch_secs(), std::sync::atomic::Ordering::Relaxed);
    if s.seq > EVENT_CAP || (s.seq > 50 && std::env::var_os("HV_TEST_HANG").is_some()) {
        drop(s);
        hang("more than 1000000 events in one scenario");
    }
}

/// No scenario of any driver produces more than about 40 000 events on the unchanged tree; a scenario that
/// produces a million, or none for four minutes of wall-clock time, is a livelock of the code under test
/// (virtual time cannot pass the run's timeout).  That is data: the first events and a `hang` event are
/// written, the process exits with status 3 and the resumable driver continues with the next scenario.
pub const EVENT_CAP: u64 = 1_000_000;
pub const QUIET_SECS: u64 = 240;
static LAST_EVENT: std::sync::atomic::AtomicU64 = std::sync::atomic::AtomicU64::new(0);
fn epoch_secs() -> u64 {
    std::time::SystemTime::now().duration_since(std::time::UNIX_EPOCH).map(|d| d.as_secs()).unwrap_or(0)
}
pub fn hang(why: &str) -> ! {
    {
        let mut s = SINK.lock().unwrap_or_else(|e| e.into_inner());
        let run = s.run;
        s.events.truncate(3000);
        s.events.retain(|e| e["run"] == json!(run));
        let i = s.seq + 1;
        s.events.push(json!({"ev":"hang","run":run,"i":i,"t":0,"why":why}));
    }
    if let Some(p) = OUT_PATH.lock().ok().and_then(|p| p.clone()) {
        flush_to(&p, true);
    }
    std::process::exit(3);
}
pub fn install_watchdog() {
    LAST_EVENT.store(epoch_secs(), std::sync::atomic::Ordering::Relaxed);
    std::thread::spawn(|| loop {
        std::thread::sleep(std::time::Duration::from_secs(5));
        let last = LAST_EVENT.load(std::sync::atomic::Ordering::Relaxed);
        if epoch_secs().saturating_sub(last) > QUIET_SECS {
            hang("no event for 240 s of wall-clock time");
        }
    });
}

pub fn begin_run(run: u64, reset: Value) {
    let mut s = SINK.lock().unwrap();
    s.run = run;
    s.seq = 0;
    s.start = None;
    let mut r = reset;
    let o = r.as_object_mut().unwrap();
    o.insert("ev".into(), json!("reset"));
    o.insert("run".into(), json!(run));
    o.insert("i".into(), json!(0));
    o.insert("t".into(), json!(0));
    s.events.push(r);
}

pub fn mark_start() {
    SINK.lock().unwrap().start = Some(tokio::time::Instant::now());
}

pub fn flush_to(path: &str, append: bool) {
    let mut s = SINK.lock().unwrap();
    use std::io::Write;
    if let Some(dir) = std::path::Path::new(path).parent() {
        let _ = std::fs::create_dir_all(dir);
    }
    let f = std::fs::OpenOptions::new().create(true).write(true).append(append).truncate(!append).open(path).expect("open trace");
    let mut w = std::io::BufWriter::new(f);
    for e in s.events.drain(..) {
        serde_json::to_writer(&mut w, &e).unwrap();
        w.write_all(b"\n").unwrap();
    }
    w.flush().unwrap();
}

/// A panic of the code under test is data: it is appended to the trace (with the scenario number) and the
/// trace is flushed, because `run_internet` chains a hook that exits the process.
pub fn install_panic_hook() {
    install_watchdog();
    std::panic::set_hook(Box::new(|info| {
        let loc = info.location().map(|l| format!("{}:{}:{}", l.file(), l.line(), l.column())).unwrap_or_default();
        let msg = if let Some(s) = info.payload().downcast_ref::<&str>() {
            s.to_string()
        } else if let Some(s) = info.payload().downcast_ref::<String>() {
            s.clone()
        } else {
            "?".to_string()
        };
        if let Ok(mut s) = SINK.try_lock() {
            let run = s.run;
            s.seq += 1;
            let i = s.seq;
            s.events.push(json!({"ev":"panic","run":run,"i":i,"t":0,"msg":msg,"loc":loc}));
        }
        if let Some(p) = OUT_PATH.lock().ok().and_then(|p| p.clone()) {
            flush_to(&p, true);
        }
    }));
}

/// Runs a scenario on a fresh single-threaded runtime with the clock paused: timers fire in virtual time.
pub fn run_paused<F: Future>(f: F) -> F::Output {
    let rt = tokio::runtime::Builder::new_current_thread().enable_time().start_paused(true).build().unwrap();
    rt.block_on(f)
}

pub fn run_multi<F: Future>(workers: usize, f: F) -> F::Output {
    let rt = tokio::runtime::Builder::new_multi_thread().worker_threads(workers).enable_time().build().unwrap();
    rt.block_on(f)
}
