//! Shared by hv-core and hv-sim: argument parsing / NDJSON output, and the full-stack scenario
//! infrastructure (event sink, virtual time, panic hook).
pub mod simh;
pub mod util;
