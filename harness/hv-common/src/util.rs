//! Small shared helpers: argument parsing, NDJSON output.
use serde_json::Value;
use std::collections::HashMap;
use std::io::Write;

pub struct Args {
    pub pos: Vec<String>,
    pub kv: HashMap<String, String>,
}

impl Args {
    pub fn parse(v: &[String]) -> Self {
        let mut pos = vec![];
        let mut kv = HashMap::new();
        let mut i = 0;
        while i < v.len() {
            if let Some(k) = v[i].strip_prefix("--") {
                if i + 1 < v.len() && !v[i + 1].starts_with("--") {
                    kv.insert(k.to_string(), v[i + 1].clone());
                    i += 2;
                } else {
                    kv.insert(k.to_string(), "true".to_string());
                    i += 1;
                }
            } else {
                pos.push(v[i].clone());
                i += 1;
            }
        }
        Args { pos, kv }
    }
    pub fn u64(&self, k: &str, d: u64) -> u64 {
        self.kv.get(k).and_then(|s| s.parse().ok()).unwrap_or(d)
    }
    pub fn str(&self, k: &str, d: &str) -> String {
        self.kv.get(k).cloned().unwrap_or_else(|| d.to_string())
    }
    pub fn flag(&self, k: &str) -> bool {
        self.kv.contains_key(k)
    }
}

pub struct NdJson {
    w: std::io::BufWriter<std::fs::File>,
    pub lines: u64,
}

// ---------------------------------------------------------------------------------------------------
// Watchdog of the synchronous drivers.  Every driver writes one event per call into the code under test; a
// driver that writes nothing for WATCHDOG_SECS is stuck inside such a call (an endless loop in the code under
// test).  That is data, not a tool failure: the process reports `code_hang` with the last event written and
// exits with status 4; the orchestrator turns it into a violation of the property being checked.
pub static WATCHDOG_SECS: std::sync::atomic::AtomicU64 = std::sync::atomic::AtomicU64::new(300);
static LAST_PUT: std::sync::atomic::AtomicU64 = std::sync::atomic::AtomicU64::new(0);
static LAST_LINE: std::sync::Mutex<String> = std::sync::Mutex::new(String::new());
static WD_STARTED: std::sync::atomic::AtomicBool = std::sync::atomic::AtomicBool::new(false);
fn now_secs() -> u64 {
    std::time::SystemTime::now().duration_since(std::time::UNIX_EPOCH).map(|d| d.as_secs()).unwrap_or(0)
}
fn arm_watchdog() {
    use std::sync::atomic::Ordering::Relaxed;
    LAST_PUT.store(now_secs(), Relaxed);
    if WD_STARTED.swap(true, Relaxed) {
        return;
    }
    if let Some(v) = std::env::var("HV_WATCHDOG_SECS").ok().and_then(|v| v.parse().ok()) {
        WATCHDOG_SECS.store(v, Relaxed);
    }
    std::thread::spawn(|| loop {
        std::thread::sleep(std::time::Duration::from_secs(2));
        let t = LAST_PUT.load(Relaxed);
        let limit = WATCHDOG_SECS.load(Relaxed);
        if t > 0 && now_secs().saturating_sub(t) > limit {
            let last = LAST_LINE.lock().map(|l| l.clone()).unwrap_or_default();
            println!("{}", serde_json::json!({"code_hang": true, "secs": limit, "last_event": last}));
            std::process::exit(4);
        }
    });
}

impl NdJson {
    pub fn create(path: &str) -> Self {
        if let Some(dir) = std::path::Path::new(path).parent() {
            let _ = std::fs::create_dir_all(dir);
        }
        arm_watchdog();
        NdJson {
            w: std::io::BufWriter::new(std::fs::File::create(path).expect("create output")),
            lines: 0,
        }
    }
    pub fn append(path: &str) -> Self {
        NdJson {
            w: std::io::BufWriter::new(std::fs::OpenOptions::new().create(true).append(true).open(path).expect("append output")),
            lines: 0,
        }
    }
    pub fn flush(&mut self) {
        self.w.flush().unwrap();
    }
    pub fn put(&mut self, v: &Value) {
        let line = serde_json::to_string(v).unwrap();
        self.w.write_all(line.as_bytes()).unwrap();
        self.w.write_all(b"\n").unwrap();
        self.lines += 1;
        LAST_PUT.store(now_secs(), std::sync::atomic::Ordering::Relaxed);
        if let Ok(mut l) = LAST_LINE.try_lock() {
            l.clear();
            let mut n = line.len().min(300);
            while !line.is_char_boundary(n) {
                n -= 1;
            }
            l.push_str(&line[..n]);
        }
    }
    pub fn finish(mut self) {
        self.w.flush().unwrap();
        // (the driver is done with this file; a later put re-arms the watchdog)
        LAST_PUT.store(0, std::sync::atomic::Ordering::Relaxed);
    }
}

pub fn read_ndjson(path: &str) -> Vec<Value> {
    let s = std::fs::read_to_string(path).expect("read input");
    s.lines()
        .filter(|l| !l.trim().is_empty())
        .map(|l| serde_json::from_str(l).expect("json line"))
        .collect()
}
