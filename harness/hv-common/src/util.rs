//! Small shared helpers: argument parsing, NDJSON output.
use serde_json::Value;
use std::collections::HashMap;
use std::io::Write;

pub struct Args {
    pub pos: Vec<String>,
    pub kv: HashMap<String, String>,
}

impl Args {
    pub fn parse(v: &[String]) -> Self {
        let mut pos = vec![];
        let mut kv = HashMap::new();
        let mut i = 0;
        while i < v.len() {
            if let Some(k) = v[i].strip_prefix("--") {
                if i + 1 < v.len() && !v[i + 1].starts_with("--") {
                    kv.insert(k.to_string(), v[i + 1].clone());
                    i += 2;
                } else {
                    kv.insert(k.to_string(), "true".to_string());
                    i += 1;
                }
            } else {
                pos.push(v[i].clone());
                i += 1;
            }
        }
        Args { pos, kv }
    }
    pub fn u64(&self, k: &str, d: u64) -> u64 {
        self.kv.get(k).and_then(|s| s.parse().ok()).unwrap_or(d)
    }
    pub fn str(&self, k: &str, d: &str) -> String {
        self.kv.get(k).cloned().unwrap_or_else(|| d.to_string())
    }
    pub fn flag(&self, k: &str) -> bool {
        self.kv.contains_key(k)
    }
}

pub struct NdJson {
    w: std::io::BufWriter<std::fs::File>,
    pub lines: u64,
}

impl NdJson {
    pub fn create(path: &str) -> Self {
        if let Some(dir) = std::path::Path::new(path).parent() {
            let _ = std::fs::create_dir_all(dir);
        }
        NdJson {
            w: std::io::BufWriter::new(std::fs::File::create(path).expect("create output")),
            lines: 0,
        }
    }
    pub fn append(path: &str) -> Self {
        NdJson {
            w: std::io::BufWriter::new(std::fs::OpenOptions::new().create(true).append(true).open(path).expect("append output")),
            lines: 0,
        }
    }
    pub fn flush(&mut self) {
        self.w.flush().unwrap();
    }
    pub fn put(&mut self, v: &Value) {
        serde_json::to_writer(&mut self.w, v).unwrap();
        self.w.write_all(b"\n").unwrap();
        self.lines += 1;
    }
    pub fn finish(mut self) {
        self.w.flush().unwrap();
    }
}

pub fn read_ndjson(path: &str) -> Vec<Value> {
    let s = std::fs::read_to_string(path).expect("read input");
    s.lines()
        .filter(|l| !l.trim().is_empty())
        .map(|l| serde_json::from_str(l).expect("json line"))
        .collect()
}
