//! C15 (first half): random operation histories on the real `IpGenerator`. The pool lives in a 64-address
//! window (base aligned to 64, at 0.0.0.0, 255.255.255.192, 10.0.0.0 and random bases); addresses are logged as
//! offsets from the base and mask lengths as m - 26, an order- and alignment-preserving embedding.
use crate::util::*;
use elvis::ip_generator::{IpGenerator, IpRange};
use elvis_core::protocols::arp::subnetting::{Ipv4Mask, Ipv4Net};
use elvis_core::protocols::ipv4::Ipv4Address;
use rand::rngs::SmallRng;
use rand::{Rng, SeedableRng};
use serde_json::json;

fn addr(x: u32) -> Ipv4Address {
    Ipv4Address::from(x)
}

pub fn drive(a: &Args) {
    let mut rng = SmallRng::seed_from_u64(a.u64("seed", 1));
    let runs = a.u64("runs", 300);
    let nops = a.u64("ops", 40);
    let mut out = NdJson::create(&a.str("out", "work/ipgen.ndjson"));
    let mut distinct = std::collections::BTreeSet::new();
    for run in 0..runs {
        let base: u32 = match rng.gen_range(0..4) {
            0 => 0,
            1 => 0xffff_ffc0,
            2 => 0x0a00_0000,
            _ => rng.gen::<u32>() & 0xffff_ffc0,
        };
        let off = |x: Ipv4Address| -> i64 { x.to_u32().wrapping_sub(base) as i32 as i64 };
        let kind = rng.gen_range(0..3);
        let (mut g, kname, lo, hi, m0) = match kind {
            0 => {
                let lo = rng.gen_range(0..64u32);
                let hi = rng.gen_range(lo..64u32);
                (IpGenerator::new(IpRange::new(addr(base + lo), addr(base + hi))), "range", lo as i64, hi as i64, 0)
            }
            k => {
                let m = rng.gen_range(26..=32u32);
                let net = Ipv4Net::new(addr(base + rng.gen_range(0..64)), Ipv4Mask::from_bitcount(m));
                let (lo, hi) = (off(net.id()), off(net.broadcast()));
                if k == 1 {
                    (IpGenerator::new_sub(net), "sub", lo, hi, m - 26)
                } else {
                    (IpGenerator::new_sub_no_ends(net), "noends", lo, hi, m - 26)
                }
            }
        };
        out.put(&json!({"ev":"reset","run":run,"i":0,"kind":kname,"lo":lo,"hi":hi,"m":m0,"base":addr(base).to_bytes()}));
        let mut held_ips: Vec<Ipv4Address> = vec![];
        let mut held_nets: Vec<Ipv4Net> = vec![];
        // a generator built for a subnet minus its ends is also drained completely now and then
        let drain = kname == "noends" && rng.gen();
        for i in 1..=nops {
            let r = if drain { 0 } else { rng.gen_range(0..10) };
            if r < 4 {
                let got = g.fetch_ip();
                if let Some(x) = got {
                    held_ips.push(x);
                }
                distinct.insert((kname, "fetch_ip", got.is_some(), held_ips.len().min(5)));
                out.put(&json!({"ev":"fetch_ip","run":run,"i":i,"res":got.map(off).unwrap_or(-1000)}));
            } else if r < 6 {
                let m = rng.gen_range(27..=32u32);
                let got = g.fetch_net(Ipv4Mask::from_bitcount(m));
                if let Some(n) = got {
                    held_nets.push(n);
                }
                distinct.insert((kname, "fetch_net", got.is_some(), (m - 26) as usize));
                out.put(&json!({"ev":"fetch_net","run":run,"i":i,"m":m - 26,
                    "res":got.map(|n| off(n.id())).unwrap_or(-1000),"rm":got.map(|n| n.mask().count_ones() as i64 - 26).unwrap_or(-1)}));
            } else if r < 8 && !held_ips.is_empty() {
                let x = held_ips.swap_remove(rng.gen_range(0..held_ips.len()));
                g.return_ip(x);
                out.put(&json!({"ev":"return_ip","run":run,"i":i,"a":off(x)}));
            } else if r < 9 && !held_nets.is_empty() {
                let n = held_nets.swap_remove(rng.gen_range(0..held_nets.len()));
                g.return_subnet(n);
                out.put(&json!({"ev":"return_net","run":run,"i":i,"a":off(n.id()),"m":n.mask().count_ones() as i64 - 26}));
            } else {
                // block a subnet that does not touch anything held
                let m = rng.gen_range(28..=32u32);
                let n = Ipv4Net::new(addr(base + rng.gen_range(0..64)), Ipv4Mask::from_bitcount(m));
                let touches = held_ips.iter().any(|x| n.contains(*x)) || held_nets.iter().any(|h| h.overlaps(n));
                if !touches {
                    g.block_subnet(n);
                    out.put(&json!({"ev":"block","run":run,"i":i,"a":off(n.id()),"m":m - 26}));
                }
            }
        }
    }
    let lines = out.lines;
    out.finish();
    println!("{}", json!({"events": lines, "runs": runs, "distinct": distinct.len()}));
}
