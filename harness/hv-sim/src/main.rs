fn main(){println!("hv-sim");}
