//! hv-sim: drivers that need the `elvis` crate (address generator, DHCP, routers, NDL).
mod dhcph;
mod ipgen;
mod lifeh;
mod ndlh;
mod routerh;
pub use hv_common::{simh, util};
use util::*;

fn main() {
    let argv: Vec<String> = std::env::args().skip(1).collect();
    if argv.is_empty() {
        eprintln!("usage: hv-sim <command> [--key value]...");
        std::process::exit(2);
    }
    let args = Args::parse(&argv[1..]);
    match argv[0].as_str() {
        "ipgen-drive" => ipgen::drive(&args),
        "life-drive" => lifeh::drive(&args),
        "dhcp-drive" => dhcph::drive(&args),
        "router-drive" => routerh::drive(&args),
        "ndl-parse" => ndlh::parse(&args),
        "ndl-run" => ndlh::run(&args),
        other => {
            eprintln!("unknown command {other}");
            std::process::exit(2);
        }
    }
}
