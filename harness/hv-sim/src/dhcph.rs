//! C15 (second half): a real DhcpServer and 1..N real DhcpClients starting simultaneously; the frame hook
//! reorders (random delays) and duplicates DHCP frames; leases are read from `DhcpClient::ip_address`;
//! harness-crafted Release messages return leases, after which the server's pool is drained to see them again.
use crate::simh::*;
use crate::util::*;
use elvis::applications::dhcp_server::DhcpServer;
use elvis::ip_generator::IpRange;
use elvis_core::machine::Machine;
use elvis_core::protocol::{DemuxError, StartError};
use elvis_core::protocols::dhcp::dhcp_client::DhcpClient;
use elvis_core::protocols::dhcp::dhcp_parsing::{DhcpMessage, MessageType};
use elvis_core::protocols::ipv4::{Ipv4, Ipv4Address, Recipient};
use elvis_core::protocols::{Arp, Endpoint, Endpoints, Pci, Udp};
use elvis_core::{Control, IpTable, Message, Network, Protocol, Session, Shutdown};
use rand::rngs::SmallRng;
use rand::{Rng, SeedableRng};
use serde_json::json;
use std::any::TypeId;
use std::sync::{Arc, Mutex};
use std::time::Duration;
use tokio::sync::Barrier;

const SERVER_IP: [u8; 4] = [123, 123, 123, 123];

/// Runs on every client machine: waits for the lease, reports it, optionally releases it
struct Watch {
    c: usize,
    release: bool,
    mac_report: bool,
}

#[async_trait::async_trait]
impl Protocol for Watch {
    async fn start(&self, _sd: Shutdown, initialized: Arc<Barrier>, machine: Arc<Machine>) -> Result<(), StartError> {
        let mac = machine.protocol::<Pci>().unwrap().open(0).mac();
        if self.mac_report {
            emit(json!({"ev":"client","c":self.c,"mac":mac}));
        }
        initialized.wait().await;
        let dhcp = machine.protocol::<DhcpClient>().unwrap();
        let got = tokio::time::timeout(Duration::from_secs(3), dhcp.ip_address()).await;
        // duplicates may still be in flight: the lease a client holds is the one it ends up with
        tokio::time::sleep(Duration::from_millis(500)).await;
        let fin = *dhcp.ip_address.read().unwrap();
        match (got, fin) {
            (Ok(_), Some(ip)) => emit(json!({"ev":"lease","c":self.c,"ip":ip.to_bytes()})),
            _ => emit(json!({"ev":"nolease","c":self.c})),
        }
        if self.release {
            if let Some(ip) = fin {
                let udp = machine.protocol::<Udp>().unwrap();
                let eps = Endpoints::new(Endpoint::new(Ipv4Address::new([0, 0, 0, 0]), 68), Endpoint::new(Ipv4Address::new(SERVER_IP), 67));
                if let Ok(sess) = udp.open_for_sending(TypeId::of::<DhcpClient>(), eps, machine.clone()).await {
                    let mut m = DhcpMessage::default();
                    m.your_ip = ip;
                    m.msg_type = MessageType::Release;
                    let _ = sess.send(DhcpMessage::to_message(m).unwrap(), machine.clone());
                    emit(json!({"ev":"release","c":self.c,"ip":ip.to_bytes()}));
                }
            }
        }
        Ok(())
    }
    fn demux(&self, _m: Message, _c: Arc<dyn Session>, _ctl: Control, _ma: Arc<Machine>) -> Result<(), DemuxError> {
        Ok(())
    }
}

/// Runs on the server machine: ends the run and then drains the pool
struct Ctl;

#[async_trait::async_trait]
impl Protocol for Ctl {
    async fn start(&self, shutdown: Shutdown, initialized: Arc<Barrier>, machine: Arc<Machine>) -> Result<(), StartError> {
        initialized.wait().await;
        tokio::time::sleep(Duration::from_secs(6)).await;
        let server = machine.protocol::<DhcpServer>().unwrap();
        let mut left = vec![];
        while let Some(ip) = server.ip_generator.write().unwrap().fetch_ip() {
            left.push(ip.to_bytes());
            if left.len() > 300 {
                break;
            }
        }
        emit(json!({"ev":"drained","free":left}));
        shutdown.shut_down();
        Ok(())
    }
    fn demux(&self, _m: Message, _c: Arc<dyn Session>, _ctl: Control, _ma: Arc<Machine>) -> Result<(), DemuxError> {
        Ok(())
    }
}

pub fn scenario(run: u64, rng: &mut SmallRng) {
    let net = Network::basic();
    let nc = rng.gen_range(1..=12usize);
    let dup = [0u32, 0, 15, 30][rng.gen_range(0..4)];
    // every duplicated Discover takes a second address: the pool is large enough for the worst case
    let base: u32 = [0x0a00_0000u32 + 1, 0x7b7b_7b00 + 1, 0xc0a8_0100 + 10, 1][rng.gen_range(0..4)];
    let size = (nc as u32) * 3 + rng.gen_range(0..4);
    let (lo, hi) = (Ipv4Address::from(base), Ipv4Address::from(base + size - 1));
    begin_run(run, json!({"nc":nc,"dup":dup,"lo":lo.to_bytes(),"hi":hi.to_bytes()}));
    let table = || -> IpTable<Recipient> { [("0.0.0.0/0", Recipient::new(0, None))].into_iter().collect() };
    let mut machines = vec![Machine::new()
        .with(Udp::new())
        .with(Ipv4::new(table()))
        .with(Pci::new([net.clone()]))
        .with(Arp::new())
        .with(DhcpServer::new(Ipv4Address::new(SERVER_IP), IpRange::new(lo, hi)))
        .with(Ctl)
        .arc()];
    for c in 0..nc {
        machines.push(
            Machine::new()
                .with(Udp::new())
                .with(Ipv4::new(table()))
                .with(Pci::new([net.clone()]))
                .with(Arp::new())
                .with(DhcpClient::new(Ipv4Address::new(SERVER_IP)))
                .with(Watch { c, release: rng.gen_range(0..3) == 0, mac_report: true })
                .arc(),
        );
    }
    let plan = Mutex::new(SmallRng::seed_from_u64(rng.gen()));
    elvis_core::network::verif::set_frame_hook(Some(Arc::new(move |f: &elvis_core::network::verif::FrameInfo| {
        let b = &f.bytes;
        if f.protocol != TypeId::of::<Ipv4>() || b.len() < 28 + 30 || b[9] != 17 {
            return vec![Duration::ZERO];
        }
        let (sport, dport) = (u16::from_be_bytes([b[20], b[21]]), u16::from_be_bytes([b[22], b[23]]));
        if !(sport == 67 || dport == 67) {
            return vec![Duration::ZERO];
        }
        let d = &b[28..];
        let mut g = plan.lock().unwrap();
        let delay = Duration::from_micros([0u64, 0, 300, 2000, 9000][g.gen_range(0..5)]);
        let twice = g.gen_range(0..100) < dup;
        emit(json!({"ev":"dhcpwire","type":d[29],"yip":[d[15],d[16],d[17],d[18]],"smac":f.sender,
                    "dmac":f.destination.map(|x| if x > 100000 { -2 } else { x as i64 }).unwrap_or(-1),"copies": if twice { 2 } else { 1 }}));
        if twice {
            vec![delay, delay + Duration::from_micros(g.gen_range(100..5000))]
        } else {
            vec![delay]
        }
    })));
    let _ = run_paused(async {
        mark_start();
        elvis_core::run_internet_with_timeout(&machines, Duration::from_secs(30)).await
    });
    elvis_core::network::verif::set_frame_hook(None);
    emit(json!({"ev":"end"}));
}

pub fn drive(a: &Args) {
    install_panic_hook();
    let out = a.str("out", "work/dhcp.ndjson");
    *OUT_PATH.lock().unwrap() = Some(out.clone());
    if a.u64("from", 0) == 0 {
        let _ = std::fs::remove_file(&out);
    }
    let seed = a.u64("seed", 1);
    let runs = a.u64("runs", 100);
    for run in a.u64("from", 0)..runs {
        let mut rng = SmallRng::seed_from_u64(seed.wrapping_mul(472882049).wrapping_add(run));
        scenario(run, &mut rng);
        flush_to(&out, true);
    }
    println!("{}", json!({"runs": runs}));
}
