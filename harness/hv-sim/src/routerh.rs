//! C16: generated topologies of real `ArpRouter`s joining subnets (line, star, ring) with correct, missing and
//! looping static routes; harness hosts exchange UDP datagrams; the frame hook records every IPv4 frame on
//! every network (TTL, addresses, payload id decoded from the RFC layout, not with the code under test).
use crate::simh::*;
use crate::util::*;
use elvis::applications::ArpRouter;
use elvis_core::machine::{Machine, PciSlot};
use elvis_core::protocol::{DemuxError, StartError};
use elvis_core::protocols::arp::subnetting::{Ipv4Mask, Ipv4Net, SubnetInfo};
use elvis_core::protocols::ipv4::ipv4_parsing::Ipv4Header;
use elvis_core::protocols::ipv4::{Ipv4, Ipv4Address, Recipient};
use elvis_core::protocols::{Arp, Endpoint, Endpoints, Pci, Udp};
use elvis_core::{Control, IpTable, Message, Network, Protocol, Session, Shutdown};
use rand::rngs::SmallRng;
use rand::{Rng, SeedableRng};
use serde_json::{json, Value};
use std::any::TypeId;
use std::sync::Arc;
use std::time::Duration;
use tokio::sync::Barrier;

const PORT: u16 = 4000;

struct Host {
    h: usize,
    ip: [u8; 4],
    sends: Vec<(u64, u32, [u8; 4])>, // (time, id, destination)
    controller: bool,
}

fn payload(id: u32) -> Vec<u8> {
    (0..12).map(|k| if k == 0 { id as u8 } else { (id as usize * 29 + k * 3) as u8 }).collect()
}

#[async_trait::async_trait]
impl Protocol for Host {
    async fn start(&self, shutdown: Shutdown, initialized: Arc<Barrier>, machine: Arc<Machine>) -> Result<(), StartError> {
        let udp = machine.protocol::<Udp>().unwrap();
        udp.listen(TypeId::of::<Self>(), Endpoint::new(Ipv4Address::new(self.ip), PORT), machine.clone()).unwrap();
        initialized.wait().await;
        let mut sends = self.sends.clone();
        sends.sort_by_key(|s| s.0);
        let mut now = 0u64;
        for (at, id, dst) in sends {
            if at > now {
                tokio::time::sleep(Duration::from_micros(at - now)).await;
                now = at;
            }
            let eps = Endpoints::new(Endpoint::new(Ipv4Address::new(self.ip), PORT), Endpoint::new(Ipv4Address::new(dst), PORT));
            let (h, udp, machine) = (self.h, udp.clone(), machine.clone());
            tokio::spawn(async move {
                let res = match udp.open_for_sending(TypeId::of::<Self>(), eps, machine.clone()).await {
                    Ok(sess) => sess.send(Message::new(payload(id)), machine).is_ok(),
                    Err(_) => false,
                };
                emit(json!({"ev":"hsend","h":h,"id":id,"dst":dst,"ok":res}));
            });
        }
        if self.controller {
            tokio::time::sleep(Duration::from_secs(40)).await;
            shutdown.shut_down();
        }
        Ok(())
    }
    fn demux(&self, message: Message, _c: Arc<dyn Session>, control: Control, _m: Arc<Machine>) -> Result<(), DemuxError> {
        let b = message.to_vec();
        let id = b.first().copied().unwrap_or(255) as u32;
        let ip = control.get::<Ipv4Header>().copied();
        emit(json!({"ev":"hrecv","h":self.h,"id":id,"intact": b == payload(id),
                    "src": ip.map(|x| x.source.to_bytes()), "dst": ip.map(|x| x.destination.to_bytes()), "ttl": ip.map(|x| x.time_to_live)}));
        Ok(())
    }
}

pub fn scenario(run: u64, rng: &mut SmallRng) {
    // topology: routers r joins a set of subnets; subnet s = 10.s.0.0/24
    let shape = rng.gen_range(0..3);
    let (nsub, attach): (usize, Vec<Vec<usize>>) = match shape {
        0 => {
            let r = rng.gen_range(1..=3usize); // line
            (r + 1, (0..r).map(|k| vec![k, k + 1]).collect())
        }
        1 => {
            let s = rng.gen_range(2..=4usize); // star
            (s, vec![(0..s).collect()])
        }
        _ => (3, vec![vec![0, 1], vec![1, 2], vec![2, 0]]), // ring of three routers
    };
    let nr = attach.len();
    let rip = |r: usize, s: usize| -> [u8; 4] { [10, s as u8, 0, 1 + r as u8] };
    let hip = |s: usize, k: usize| -> [u8; 4] { [10, s as u8, 0, 20 + k as u8] };
    // shortest-path next hops between subnets (BFS over routers)
    let mut routes: Vec<Vec<Value>> = vec![];
    let mut tables: Vec<IpTable<(Option<Ipv4Address>, PciSlot)>> = vec![];
    // 0,1: correct, 2: one entry missing, 3: one entry redirected (loop / dead end),
    // 4: routes for the unknown subnet 10.50.0.0/24 that chase each other (two-router loop, or around the ring)
    let fault = rng.gen_range(0..5);
    let fr = rng.gen_range(0..nr);
    let fs = rng.gen_range(0..nsub);
    for r in 0..nr {
        let mut t: IpTable<(Option<Ipv4Address>, PciSlot)> = IpTable::new();
        let mut rj = vec![];
        for d in 0..nsub {
            // BFS from router r to subnet d
            let mut entry: Option<(Option<(usize, usize)>, usize)> = None; // (next hop (router, shared subnet), out slot)
            if let Some(slot) = attach[r].iter().position(|&s| s == d) {
                entry = Some((None, slot));
            } else {
                let mut dist = vec![usize::MAX; nr];
                let mut first: Vec<Option<(usize, usize, usize)>> = vec![None; nr]; // (neighbour, via subnet, slot)
                let mut q = std::collections::VecDeque::new();
                dist[r] = 0;
                q.push_back(r);
                while let Some(x) = q.pop_front() {
                    for (slot, &s) in attach[x].iter().enumerate() {
                        for y in 0..nr {
                            if y != x && attach[y].contains(&s) && dist[y] == usize::MAX {
                                dist[y] = dist[x] + 1;
                                first[y] = if x == r { Some((y, s, slot)) } else { first[x] };
                                q.push_back(y);
                            }
                        }
                    }
                }
                let mut best: Option<(usize, (usize, usize, usize))> = None;
                for y in 0..nr {
                    if attach[y].contains(&d) && dist[y] != usize::MAX {
                        if best.map(|b| dist[y] < b.0).unwrap_or(true) {
                            best = Some((dist[y], first[y].unwrap()));
                        }
                    }
                }
                if let Some((_, (nb, via, slot))) = best {
                    entry = Some((Some((nb, via)), slot));
                }
            }
            if fault == 2 && r == fr && d == fs {
                entry = None;
            }
            if fault == 3 && r == fr && d == fs && !attach[r].contains(&d) {
                // redirect to some neighbour on some attached subnet (may point backwards: a loop)
                let slot = rng.gen_range(0..attach[r].len());
                let s = attach[r][slot];
                let nbs: Vec<usize> = (0..nr).filter(|&y| y != r && attach[y].contains(&s)).collect();
                entry = if nbs.is_empty() { Some((Some((9, s)), slot)) } else { Some((Some((nbs[rng.gen_range(0..nbs.len())], s)), slot)) };
            }
            if let Some((nh, slot)) = entry {
                let net = Ipv4Net::new(Ipv4Address::new([10, d as u8, 0, 0]), Ipv4Mask::from_bitcount(24));
                t.add(net, (nh.map(|(y, s)| Ipv4Address::new(rip(y, s))), slot as PciSlot));
                rj.push(json!({"d":d,"direct":nh.is_none(),"nr":nh.map(|x| x.0 as i64).unwrap_or(-1),"out":attach[r][slot]}));
            }
        }
        if fault == 4 && nr >= 2 {
            // next router in the cycle r -> r+1 -> ... (ring: around the ring; line: the last one points back)
            let y = if r + 1 < nr { r + 1 } else if shape == 2 { 0 } else { r - 1 };
            if let Some(slot) = attach[r].iter().position(|s| attach[y].contains(s)) {
                let sn = attach[r][slot];
                let net = Ipv4Net::new(Ipv4Address::new([10, 50, 0, 0]), Ipv4Mask::from_bitcount(24));
                t.add(net, (Some(Ipv4Address::new(rip(y, sn))), slot as PciSlot));
                rj.push(json!({"d":50,"direct":false,"nr":y,"out":sn}));
            }
        }
        tables.push(t);
        routes.push(rj);
    }
    // hosts: one or two per subnet
    let mut hosts: Vec<(usize, [u8; 4])> = vec![];
    for s in 0..nsub {
        for k in 0..rng.gen_range(1..=2usize) {
            hosts.push((s, hip(s, k)));
        }
    }
    // gateways: the first router attached to the subnet
    let gw = |s: usize| -> Option<usize> { (0..nr).find(|&r| attach[r].contains(&s)) };
    let nsend = rng.gen_range(1..=5usize);
    let mut sends: Vec<Vec<(u64, u32, [u8; 4])>> = vec![vec![]; hosts.len()];
    for id in 0..nsend {
        let a = rng.gen_range(0..hosts.len());
        let dst = match rng.gen_range(0..7) {
            0 => [10, hosts[rng.gen_range(0..hosts.len())].0 as u8, 0, 99], // nobody's address on an existing subnet
            1 | 2 => [10, 50, 0, 20],                                       // a subnet that does not exist
            _ => hosts[rng.gen_range(0..hosts.len())].1,
        };
        sends[a].push(([0u64, 0, 5000, 300_000][rng.gen_range(0..4)], id as u32 + 1, dst));
    }
    let hj: Vec<Value> = hosts.iter().map(|(s, ip)| json!({"s":s,"ip":ip,"gw":gw(*s).map(|x| x as i64).unwrap_or(-1)})).collect();
    begin_run(run, json!({"nsub":nsub,"nr":nr,"attach":attach,"routes":routes,"hosts":hj,"fault":fault}));
    let nets: Vec<Arc<Network>> = (0..nsub).map(|_| Network::basic()).collect();
    let mut machines: Vec<Arc<Machine>> = vec![];
    for (h, (s, ip)) in hosts.iter().enumerate() {
        let mut arp = Arp::new();
        if let Some(g) = gw(*s) {
            arp = arp.preconfig_subnet(Ipv4Address::new(*ip), SubnetInfo::new(Ipv4Mask::from_bitcount(24), Ipv4Address::new(rip(g, *s))));
        }
        let table: IpTable<Recipient> = [(Ipv4Address::new(*ip), Recipient::new(0, None))].into_iter().collect();
        machines.push(
            Machine::new()
                .with(Udp::new())
                .with(Ipv4::new(table))
                .with(Pci::new([nets[*s].clone()]))
                .with(arp)
                .with(Host { h, ip: *ip, sends: sends[h].clone(), controller: h == 0 })
                .arc(),
        );
    }
    for r in 0..nr {
        let ips: Vec<Ipv4Address> = attach[r].iter().map(|&s| Ipv4Address::new(rip(r, s))).collect();
        machines.push(
            Machine::new()
                .with(Pci::new(attach[r].iter().map(|&s| nets[s].clone())))
                .with(Ipv4::new(Default::default()))
                .with(Arp::new())
                .with(ArpRouter::new(tables[r].clone(), ips))
                .arc(),
        );
    }
    let ids: Vec<usize> = nets.iter().map(elvis_core::network::verif::network_id).collect();
    // a datagram seen more than 64 times has outlived any TTL a host can give it (hosts send 30): the trace
    // already carries the evidence, further copies are dropped so that the run (virtual time) can end
    let seen: std::sync::Mutex<std::collections::HashMap<u8, u32>> = Default::default();
    elvis_core::network::verif::set_frame_hook(Some(Arc::new(move |f: &elvis_core::network::verif::FrameInfo| {
        if f.protocol == TypeId::of::<Ipv4>() && f.bytes.len() >= 29 {
            let b = &f.bytes;
            {
                let mut m = seen.lock().unwrap();
                let c = m.entry(b[28]).or_insert(0);
                *c += 1;
                if *c > 64 {
                    return vec![];
                }
            }
            let net = ids.iter().position(|&x| x == f.network).map(|x| x as i64).unwrap_or(-1);
            emit(json!({"ev":"ipwire","net":net,"ttl":b[8],"src":[b[12],b[13],b[14],b[15]],"dst":[b[16],b[17],b[18],b[19]],"id":b[28],
                        "len":f.bytes.len()}));
        }
        vec![Duration::ZERO]
    })));
    let _ = run_paused(async {
        mark_start();
        elvis_core::run_internet_with_timeout(&machines, Duration::from_secs(60)).await
    });
    elvis_core::network::verif::set_frame_hook(None);
    emit(json!({"ev":"end"}));
}

pub fn drive(a: &Args) {
    install_panic_hook();
    let out = a.str("out", "work/router.ndjson");
    *OUT_PATH.lock().unwrap() = Some(out.clone());
    if a.u64("from", 0) == 0 {
        let _ = std::fs::remove_file(&out);
    }
    let seed = a.u64("seed", 1);
    let runs = a.u64("runs", 100);
    for run in a.u64("from", 0)..runs {
        let mut rng = SmallRng::seed_from_u64(seed.wrapping_mul(49979687).wrapping_add(run));
        scenario(run, &mut rng);
        flush_to(&out, true);
    }
    println!("{}", json!({"runs": runs}));
}
