//! C13: machine sets mixing scripted harness applications (slow to initialise, shutting down early / late /
//! concurrently with different statuses / never) with built-in protocols and applications, run through
//! `run_internet_with_timeout` under virtual time.
use crate::simh::*;
use crate::util::*;
use elvis::applications::{Capture, Forward, SendMessage};
use elvis_core::machine::Machine;
use elvis_core::protocol::{DemuxError, StartError};
use elvis_core::protocols::ipv4::{Ipv4, Ipv4Address, Recipient};
use elvis_core::protocols::{Arp, Endpoint, Endpoints, Pci, Udp};
use elvis_core::shutdown::ExitStatus;
use elvis_core::{Control, IpTable, Message, Network, Protocol, Session, Shutdown};
use rand::rngs::SmallRng;
use rand::{Rng, SeedableRng};
use serde_json::json;
use std::any::TypeId;
use std::sync::Arc;
use std::time::Duration;
use tokio::sync::Barrier;

#[derive(Clone, Debug)]
enum Post {
    Nothing,
    Frames(u32),
    Shutdown(u32),
    Burst(u32, u32), // n requests with statuses base..base+n in one go
    Hang,
}

struct Scr<const N: usize> {
    m: usize,
    init_us: u64,
    post_us: u64,
    post: Post,
    has_pci: bool,
    /// asks for a shutdown with this status during its initialisation, before it waits at the barrier
    early: Option<u32>,
    /// its initialisation never finishes
    never: bool,
}

#[async_trait::async_trait]
impl<const N: usize> Protocol for Scr<N> {
    async fn start(&self, shutdown: Shutdown, initialized: Arc<Barrier>, machine: Arc<Machine>) -> Result<(), StartError> {
        if self.init_us > 0 {
            tokio::time::sleep(Duration::from_micros(self.init_us)).await;
        }
        if let Some(st) = self.early {
            emit(json!({"ev":"shutreq","m":self.m,"p":N,"status":st}));
            shutdown.shut_down_with_status(ExitStatus::Status(st));
        }
        if self.never {
            std::future::pending::<()>().await;
        }
        emit(json!({"ev":"arrive","m":self.m,"p":N}));
        initialized.wait().await;
        emit(json!({"ev":"released","m":self.m,"p":N}));
        if self.post_us > 0 {
            tokio::time::sleep(Duration::from_micros(self.post_us)).await;
        }
        match self.post {
            Post::Nothing => {}
            Post::Frames(k) => {
                if self.has_pci {
                    let sess = machine.protocol::<Pci>().unwrap().open(0);
                    for _ in 0..k {
                        let _ = sess.send_pci(Message::new(vec![1u8, 2, 3]), None, TypeId::of::<Scr<0>>());
                    }
                }
            }
            Post::Shutdown(st) => {
                emit(json!({"ev":"shutreq","m":self.m,"p":N,"status":st}));
                shutdown.shut_down_with_status(ExitStatus::Status(st));
            }
            Post::Burst(base, n) => {
                for k in 0..n {
                    emit(json!({"ev":"shutreq","m":self.m,"p":N,"status":base + k}));
                    shutdown.shut_down_with_status(ExitStatus::Status(base + k));
                }
            }
            Post::Hang => {
                std::future::pending::<()>().await;
            }
        }
        Ok(())
    }
    fn demux(&self, _m: Message, _c: Arc<dyn Session>, _ctl: Control, _ma: Arc<Machine>) -> Result<(), DemuxError> {
        emit(json!({"ev":"demux","m":self.m,"p":N}));
        Ok(())
    }
}

fn status_code(s: &ExitStatus) -> i64 {
    match s {
        ExitStatus::Status(k) => *k as i64,
        ExitStatus::Exited => -1,
        ExitStatus::TimedOut => -2,
    }
}

pub fn scenario(run: u64, rng: &mut SmallRng) {
    let net = Network::basic();
    let nm = rng.gen_range(0..=4usize);
    let timeout_us = [50_000u64, 1_000_000, 3_000_000, 10_000][rng.gen_range(0..4)];
    let mut machines: Vec<Arc<Machine>> = vec![];
    let mut total_scr = 0;
    let mut fwdarp = false;
    let mut has_capture = false;
    let mut next_status = 10u32;
    // runs WITHOUT a timeout: only when every protocol finishes and none keeps its shutdown handle (scripted applications
    // and taps only); such a run must return once everything has finished -- Exited if nobody asked
    let want_untimed = rng.gen_range(0..7) == 0;
    let mut can_be_untimed = true;
    for m in 0..nm {
        let mut mach = Machine::new();
        let builtin = rng.gen_range(0..5);
        let has_pci = builtin != 4;
        if has_pci {
            mach = mach.with(Pci::new([net.clone()]));
        }
        let my_ip = [10, 0, 0, m as u8 + 1];
        let peer_ip = [10, 0, 0, ((m + 1) % nm.max(1)) as u8 + 1];
        if builtin <= 2 {
            can_be_untimed = false;
            let table: IpTable<Recipient> = [("0.0.0.0/0", Recipient::new(0, None))].into_iter().collect();
            mach = mach.with(Udp::new()).with(Ipv4::new(table));
            let with_arp = rng.gen_range(0..3) == 0;
            if with_arp {
                mach = mach.with(Arp::new());
            }
            match builtin {
                0 => {
                    mach = mach.with(SendMessage::new(vec![Message::new("hi")], Endpoint::new(Ipv4Address::new(peer_ip), 0xbeef)).local_ip(Ipv4Address::new(my_ip)));
                }
                1 => {
                    mach = mach.with(Capture::new(Endpoint::new(Ipv4Address::new(my_ip), 0xbeef), 1).exit_status(7));
                    has_capture = true;
                }
                _ => {
                    mach = mach.with(Forward::new(Endpoints::new(
                        Endpoint::new(Ipv4Address::new(my_ip), 0xbeef),
                        Endpoint::new(Ipv4Address::new(peer_ip), 0xbeef),
                    )));
                    fwdarp |= with_arp;
                }
            }
        }
        let pick_post = |rng: &mut SmallRng, next_status: &mut u32| -> Post {
            match rng.gen_range(0..10) {
                0 | 1 | 2 => Post::Nothing,
                3 | 4 => Post::Frames(rng.gen_range(1..3)),
                5 | 6 => {
                    *next_status += 1;
                    Post::Shutdown(*next_status)
                }
                7 => {
                    *next_status += 40;
                    Post::Burst(*next_status - 30, [2u32, 17, 20][rng.gen_range(0..3)])
                }
                _ => Post::Hang,
            }
        };
        let nscr = rng.gen_range(0..=3usize);
        let delays = [0u64, 0, 1_000, 20_000, 1_000_000, 2_000_000];
        for p in 0..nscr {
            let (init_us, post_us) = (delays[rng.gen_range(0..6)], delays[rng.gen_range(0..6)]);
            let post = pick_post(rng, &mut next_status);
            total_scr += 1;
            let early = if rng.gen_range(0..10) == 0 {
                next_status += 1;
                Some(next_status)
            } else {
                None
            };
            let never = rng.gen_range(0..14) == 0;
            if never || matches!(post, Post::Hang) {
                can_be_untimed = false;
            }
            mach = match p {
                0 => mach.with(Scr::<0> { m, init_us, post_us, post, has_pci, early, never }),
                1 => mach.with(Scr::<1> { m, init_us, post_us, post, has_pci, early, never }),
                _ => mach.with(Scr::<2> { m, init_us, post_us, post, has_pci, early, never }),
            };
        }
        machines.push(mach.arc());
    }
    let untimed = want_untimed && can_be_untimed;
    begin_run(run, json!({"nm":nm,"scr":total_scr,"timeout":timeout_us,"fwdarp":fwdarp,"capture":has_capture,"untimed":untimed}));
    elvis_core::network::verif::set_frame_hook(Some(Arc::new(move |f: &elvis_core::network::verif::FrameInfo| {
        emit(json!({"ev":"wire","len":f.bytes.len()}));
        vec![Duration::ZERO]
    })));
    let status = run_paused(async {
        mark_start();
        // a guard above the bound the property states, so that a run that never returns is recorded, not waited for
        let fut = async {
            if untimed {
                elvis_core::run_internet(&machines, None).await
            } else {
                elvis_core::run_internet_with_timeout(&machines, Duration::from_micros(timeout_us)).await
            }
        };
        match tokio::time::timeout(Duration::from_secs(60), fut).await {
            Ok(s) => {
                emit(json!({"ev":"returned","status":status_code(&s)}));
                Some(s)
            }
            Err(_) => {
                emit(json!({"ev":"never_returned"}));
                None
            }
        }
    });
    elvis_core::network::verif::set_frame_hook(None);
    let _ = status;
    emit(json!({"ev":"end"}));
}

pub fn drive(a: &Args) {
    install_panic_hook();
    let out = a.str("out", "work/life.ndjson");
    *OUT_PATH.lock().unwrap() = Some(out.clone());
    if a.u64("from", 0) == 0 {
        let _ = std::fs::remove_file(&out);
    }
    let seed = a.u64("seed", 1);
    let runs = a.u64("runs", 100);
    for run in a.u64("from", 0)..runs {
        let mut rng = SmallRng::seed_from_u64(seed.wrapping_mul(32452843).wrapping_add(run));
        scenario(run, &mut rng);
        flush_to(&out, true);
    }
    println!("{}", json!({"runs": runs}));
}

thread_local! {
    static LAST: std::cell::RefCell<Option<(String, String)>> = std::cell::RefCell::new(None);
}

/// a hook that records the panic instead of printing (used where panics are caught: no simulation runs)
pub fn install_quiet_hook() {
    std::panic::set_hook(Box::new(|info| {
        let loc = info.location().map(|l| format!("{}:{}:{}", l.file(), l.line(), l.column())).unwrap_or_default();
        let msg = if let Some(s) = info.payload().downcast_ref::<&str>() {
            s.to_string()
        } else if let Some(s) = info.payload().downcast_ref::<String>() {
            s.clone()
        } else {
            "?".to_string()
        };
        LAST.with(|p| *p.borrow_mut() = Some((msg, loc)));
    }));
}

pub fn take_panic_info() -> (String, String) {
    LAST.with(|p| p.borrow_mut().take()).unwrap_or_default()
}
