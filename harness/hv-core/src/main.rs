//! hv-core: drivers and replayers for the parts of Elvis that need only `elvis-core`.
mod arph;
mod codech;
mod dnsh;
mod ipfrag;
mod iptab;
mod linkh;
mod modcmp;
mod msgh;
mod sockh;
mod sockrace;
mod tcbh;
mod tcplh;
mod udph;

pub use hv_common::{simh, util};
use serde_json::{json, Value};
use util::*;

fn main() {
    let argv: Vec<String> = std::env::args().skip(1).collect();
    if argv.is_empty() {
        eprintln!("usage: hv-core <command> [--key value]...");
        std::process::exit(2);
    }
    let args = Args::parse(&argv[1..]);
    match argv[0].as_str() {
        "tcb-drive" => tcb_drive(&args),
        "tcb-replay" => tcb_replay(&args),
        "modcmp-drive" => modcmp::drive(&args),
        "frag-drive" => ipfrag::frag_drive(&args),
        "msg-drive" => msgh::drive(&args),
        "iptab-drive" => iptab::drive(&args),
        "link-drive" => linkh::drive(&args),
        "udp-drive" => udph::drive(&args),
        "arp-drive" => arph::drive(&args),
        "dns-drive" => dnsh::drive(&args),
        "sock-drive" => sockh::drive(&args),
        "sockrace-drive" => sockrace::drive(&args),
        "tcpl-drive" => tcplh::drive(&args),
        "codec-drive" => codech::drive(&args),
        "decode-drive" => codech::decode_drive(&args),
        "reasm-drive" => ipfrag::reasm_drive(&args),
        other => {
            eprintln!("unknown command {other}");
            std::process::exit(2);
        }
    }
}

/// seeded random schedules on two real TCBs; one NDJSON event per step
fn tcb_drive(a: &Args) {
    tcbh::install_quiet_panic_hook();
    let seed = a.u64("seed", 1);
    let runs = a.u64("runs", 100);
    let from = a.u64("from", 0);
    let steps = a.u64("steps", 120) as usize;
    let profile = a.str("profile", "data");
    let (op, sp) = (a.str("out", "work/tcb-trace.ndjson"), a.str("sched", "work/tcb-sched.ndjson"));
    let mut out = if from == 0 { NdJson::create(&op) } else { NdJson::append(&op) };
    let mut sched = if from == 0 { NdJson::create(&sp) } else { NdJson::append(&sp) };
    // watchdog: a step of the random driver that does not return for HANG_SECS is an endless loop in the code
    // under test.  The run so far is written with a `panic` event saying so, and the process exits with status 3;
    // the orchestrator continues with the next run (--from).
    let hang_secs = a.u64("hang-secs", 180);
    {
        let (op, sp, profile) = (op.clone(), sp.clone(), profile.clone());
        std::thread::spawn(move || loop {
            std::thread::sleep(std::time::Duration::from_secs(2));
            let beat = tcbh::BEAT.load(std::sync::atomic::Ordering::Relaxed);
            if beat == 0 || tcbh::now_secs().saturating_sub(beat) <= hang_secs {
                continue;
            }
            let g = tcbh::LIVE.lock().unwrap_or_else(|e| e.into_inner());
            if let Some(l) = g.as_ref() {
                let mut o = NdJson::append(&op);
                for e in &l.events {
                    o.put(e);
                }
                let last = l.steps.last().cloned().unwrap_or(Value::Null);
                let mut pe = json!({"ev":"panic","run":l.run,"i":l.events.len(),"p":last["p"].as_str().unwrap_or("A"),
                              "where":format!("hang: step {} did not return for {} s", last, hang_secs),"loc":"(endless loop)","msg":"hang","args":{}});
                // the state fields every event carries: those of the last completed step
                if let Some(prev) = l.events.iter().rev().find(|e| e.get("snapA").is_some()) {
                    for k in ["snapA", "snapB", "wire", "sent"] {
                        pe[k] = prev[k].clone();
                    }
                }
                o.put(&pe);
                o.finish();
                let mut s = NdJson::append(&sp);
                s.put(&json!({"run": l.run, "profile": profile, "params": l.params, "steps": l.steps, "hang": true}));
                s.finish();
                println!("{}", json!({"hang_run": l.run}));
            }
            std::process::exit(3);
        });
    }
    let mut cover = std::collections::BTreeSet::new();
    let mut panics = 0;
    for r in from..runs {
        let s = seed.wrapping_mul(1_000_003).wrapping_add(r);
        let (w, st) = tcbh::drive_random(r, s, &profile, steps);
        for e in &w.events {
            out.put(e);
        }
        if w.crashed {
            panics += 1;
        }
        cover.extend(w.cover.iter().cloned());
        sched.put(&json!({"run": r, "seed": s, "profile": profile,
            "params": {"mtu": w.prm.mtu, "issA": w.prm.iss[0], "issB": w.prm.iss[1],
                       "listenA": w.prm.listen[0], "listenB": w.prm.listen[1]},
            "steps": st}));
        // the watchdog appends to the same files: nothing of a finished run may stay buffered
        out.flush();
        sched.flush();
    }
    tcbh::BEAT.store(0, std::sync::atomic::Ordering::Relaxed);
    let lines = out.lines;
    out.finish();
    sched.finish();
    println!("{}", json!({"runs": runs, "events": lines, "panics": panics, "cover": cover.len()}));
}

/// executes schedules (one JSON object per line: {params, steps}) on two real TCBs
fn tcb_replay(a: &Args) {
    tcbh::install_quiet_panic_hook();
    let scheds = read_ndjson(&a.str("in", "work/tcb-sched.ndjson"));
    let mut out = NdJson::create(&a.str("out", "work/tcb-replay.ndjson"));
    let only: Option<u64> = a.kv.get("only").and_then(|s| s.parse().ok());
    let mut cover = std::collections::BTreeSet::new();
    let mut panics = 0;
    let mut n = 0;
    let (mut compared, mut drift, mut drift_runs, mut isn_mismatch) = (0u64, 0u64, 0u64, 0u64);
    for (k, s) in scheds.iter().enumerate() {
        let run = s["run"].as_u64().unwrap_or(k as u64);
        if let Some(o) = only {
            if o != run {
                continue;
            }
        }
        // the same schedule under several ISN pairs (C12): params.isns = [[a,b],...]
        let variants: Vec<Value> = match s["isns"].as_array() {
            Some(v) if !v.is_empty() => v.clone(),
            _ => vec![Value::Null],
        };
        let mut first: Option<Vec<Value>> = None;
        for (vi, v) in variants.iter().enumerate() {
            let mut sc = s.clone();
            if !v.is_null() {
                sc["params"]["issA"] = v[0].clone();
                sc["params"]["issB"] = v[1].clone();
            }
            let mut w = tcbh::run_schedule(run * 100 + vi as u64, &sc);
            // C12(ii): the normalised behaviour must not depend on the ISNs
            let norm: Vec<Value> = w
                .events
                .iter()
                .skip(1)
                .map(|e| {
                    let mut e = e.clone();
                    e.as_object_mut().unwrap().remove("run");
                    e
                })
                .collect();
            // A reset sent from the CLOSED state carries the LITERAL sequence number 0 (RFC 9293 3.10.7.1): where
            // that lands in the receiver's window depends on the ISNs by design.  Behaviours are compared up to the
            // first emission of such a segment.
            let literal0 = |evs: &Vec<Value>| -> usize {
                evs.iter()
                    .position(|e| {
                        // (the answer of a closed endpoint is the `resp` of the arrival that provoked it)
                        let r = &e["resp"];
                        r.is_object() && r["ctl"].as_u64().unwrap_or(0) & 0x14 == 0x14 && r["seq"] == 0 && r["off"] == -1
                    })
                    .map(|k| k + 1)
                    .unwrap_or(usize::MAX)
            };
            let norm: Vec<Value> = {
                let cut = literal0(&norm);
                norm.into_iter().take(cut).collect()
            };
            match &first {
                None => first = Some(norm),
                Some(f) => {
                    if *f != norm {
                        let k = f.iter().zip(norm.iter()).position(|(a, b)| a != b).unwrap_or(f.len().min(norm.len()));
                        let mut e = w.events.last().unwrap().clone();
                        e["ev"] = json!("isn_mismatch");
                        e["at"] = json!(k);
                        e["isns"] = v.clone();
                        w.events.push(e);
                        isn_mismatch += 1;
                    }
                }
            }
            for e in &w.events {
                out.put(e);
            }
            if w.crashed {
                panics += 1;
            }
            cover.extend(w.cover.iter().cloned());
            compared += w.compared;
            drift += w.drift;
            if w.drift > 0 {
                drift_runs += 1;
            }
            n += 1;
        }
    }
    let lines = out.lines;
    out.finish();
    println!("{}", json!({"runs": n, "events": lines, "panics": panics, "cover": cover.len(),
        "steps_compared": compared, "drift_steps": drift, "drift_runs": drift_runs, "isn_mismatch": isn_mismatch}));
}
