//! C04: machines with the real Udp / Ipv4 / (Arp) / Pci stack and up to three harness applications each.
//! Applications bind endpoints through `Udp::listen` (results logged), send datagrams through
//! `Udp::open_for_sending` + `Session::send`, and log every demux with the headers found in `Control`.
use crate::simh::*;
use crate::util::*;
use elvis_core::machine::Machine;
use elvis_core::network::NetworkBuilder;
use elvis_core::protocol::{DemuxError, StartError};
use elvis_core::protocols::ipv4::ipv4_parsing::Ipv4Header;
use elvis_core::protocols::ipv4::{Ipv4, Ipv4Address, Recipient};
use elvis_core::protocols::udp::UdpHeader;
use elvis_core::protocols::{Arp, Endpoint, Endpoints, Pci, Udp};
use elvis_core::{Control, IpTable, Message, Protocol, Session, Shutdown};
use rand::rngs::SmallRng;
use rand::{Rng, SeedableRng};
use serde_json::{json, Value};
use std::any::TypeId;
use std::sync::Arc;
use std::time::Duration;
use tokio::sync::Barrier;

#[derive(Clone, Debug)]
struct Dgram {
    at_us: u64,
    id: u32,
    src: ([u8; 4], u16),
    dst: ([u8; 4], u16),
    len: usize,
}

/// Application number N of a machine (one Rust type per N so that a machine can host several)
struct App<const N: usize> {
    m: usize,
    binds: Vec<([u8; 4], u16)>,
    sends: Vec<Dgram>,
    controller: bool,
    /// answers every datagram addressed to one of this machine's own addresses through the session handed to demux
    replies: bool,
}

fn payload(id: u32, len: usize) -> Vec<u8> {
    (0..len).map(|k| if k == 0 { id as u8 } else { ((id as usize * 17 + k * 13) % 249) as u8 }).collect()
}

fn ep(a: [u8; 4], p: u16) -> Endpoint {
    Endpoint::new(Ipv4Address::new(a), p)
}

#[async_trait::async_trait]
impl<const N: usize> Protocol for App<N> {
    async fn start(&self, shutdown: Shutdown, initialized: Arc<Barrier>, machine: Arc<Machine>) -> Result<(), StartError> {
        let udp = machine.protocol::<Udp>().unwrap();
        for (k, b) in self.binds.iter().enumerate() {
            // the applications of a machine bind in a scripted order (virtual time before the barrier is 0,
            // the order is the order of `seq` in the sink)
            tokio::task::yield_now().await;
            let r = udp.listen(TypeId::of::<Self>(), ep(b.0, b.1), machine.clone());
            emit(json!({"ev":"bind","m":self.m,"app":N,"k":k,"addr":b.0,"port":b.1,"ok":r.is_ok()}));
        }
        initialized.wait().await;
        let mut sends = self.sends.clone();
        sends.sort_by_key(|s| s.at_us);
        let mut now = 0u64;
        for d in sends {
            if d.at_us > now {
                tokio::time::sleep(Duration::from_micros(d.at_us - now)).await;
                now = d.at_us;
            }
            let eps = Endpoints::new(ep(d.src.0, d.src.1), ep(d.dst.0, d.dst.1));
            let me = self.m;
            let udp = udp.clone();
            let machine = machine.clone();
            // opening may take up to 2 s of virtual time (ARP): do not delay the rest of the script
            tokio::spawn(async move {
                let res = match udp.open_for_sending(TypeId::of::<Self>(), eps, machine.clone()).await {
                    Ok(sess) => match sess.send(Message::new(payload(d.id, d.len)), machine) {
                        Ok(()) => "sent",
                        Err(_) => "send_err",
                    },
                    Err(_) => "open_err",
                };
                emit(json!({"ev":"dsend","m":me,"app":N,"id":d.id,"src":d.src.0,"sport":d.src.1,"dst":d.dst.0,"dport":d.dst.1,
                            "len":d.len,"res":res,"reply":false}));
            });
        }
        if self.controller {
            tokio::time::sleep(Duration::from_secs(10)).await;
            shutdown.shut_down();
        }
        Ok(())
    }

    fn demux(&self, message: Message, caller: Arc<dyn Session>, control: Control, machine: Arc<Machine>) -> Result<(), DemuxError> {
        let ip = control.get::<Ipv4Header>().copied();
        let uh = control.get::<UdpHeader>().copied();
        let bytes = message.to_vec();
        let id = if bytes.is_empty() { 200 } else { bytes[0] as i64 };
        let intact = bytes.is_empty() || payload(bytes[0] as u32, bytes.len()) == bytes;
        emit(json!({"ev":"demux","m":self.m,"app":N,"id":id,"len":bytes.len(),"intact":intact,
            "src": ip.map(|h| h.source.to_bytes()), "dst": ip.map(|h| h.destination.to_bytes()),
            "sport": uh.map(|h| h.source), "dport": uh.map(|h| h.destination)}));
        // the answer travels through the session that delivered the datagram: from the endpoint it was addressed to, to
        // the endpoint it came from (answers, ids above 100, are not answered)
        if let (true, Some(ip), Some(uh)) = (self.replies && (1..100).contains(&id), ip, uh) {
            let d = ip.destination.to_bytes();
            if d[..3] == [10, 0, 0] && (d[3] as usize == 10 * self.m + 1 || d[3] as usize == 10 * self.m + 2) {
                let rid = id as u32 + 100;
                let res = match caller.send(Message::new(payload(rid, 5)), machine) {
                    Ok(()) => "sent",
                    Err(_) => "send_err",
                };
                emit(json!({"ev":"dsend","m":self.m,"app":N,"id":rid,"src":d,"sport":uh.destination,"dst":ip.source.to_bytes(),"dport":uh.source,
                            "len":5,"res":res,"reply":true}));
            }
        }
        Ok(())
    }
}

const ANY: [u8; 4] = [0, 0, 0, 0];
const BCAST: [u8; 4] = [255, 255, 255, 255];

pub fn scenario(run: u64, rng: &mut SmallRng) {
    // ARP on every machine, on none, or on some (a sender without ARP broadcasts its frames, one with ARP addresses the owner)
    let arp_mode = rng.gen_range(0..4);
    let mtu = [100u16, 1500][rng.gen_range(0..2)];
    let net = NetworkBuilder::new().mtu(mtu).build();
    let nm = rng.gen_range(2..=4usize);
    let arps: Vec<bool> = (0..nm).map(|_| match arp_mode { 0 => true, 1 | 2 => false, _ => rng.gen_range(0..2) == 0 }).collect();
    let ports = [7u16, 9, 53];
    // machine k owns 10.0.0.(10k+1) and 10.0.0.(10k+2)
    let own = |k: usize, j: u8| -> [u8; 4] { [10, 0, 0, (10 * k) as u8 + j] };
    let mut binds: Vec<Vec<Vec<([u8; 4], u16)>>> = vec![vec![vec![]; 3]; nm];
    for m in 0..nm {
        let nb = rng.gen_range(0..=4usize);
        for _ in 0..nb {
            let app = rng.gen_range(0..3usize);
            let addr = match rng.gen_range(0..6) {
                0 | 1 => own(m, 1),
                2 => own(m, 2),
                3 | 4 => ANY,
                _ => BCAST,
            };
            binds[m][app].push((addr, ports[rng.gen_range(0..3)]));
        }
    }
    // datagrams: from any machine's application to any (address, port), bound or not
    let nd = rng.gen_range(1..=6usize);
    let mut sends: Vec<Vec<Vec<Dgram>>> = vec![vec![vec![]; 3]; nm];
    let mut have_zero = false;
    for id in 0..nd {
        let m = rng.gen_range(0..nm);
        let app = rng.gen_range(0..3usize);
        let tm = rng.gen_range(0..nm);
        let dst_addr = match rng.gen_range(0..8) {
            0 if !arps[m] => BCAST,
            1 => [10, 0, 0, 250], // nobody's address
            2 => own(tm, 2),
            _ => own(tm, 1),
        };
        let maxp = mtu as usize - 28;
        let mut len = [0usize, 1, 20, maxp, maxp + 1, maxp - 1][rng.gen_range(0..6)];
        if len == 0 && have_zero {
            len = 3;
        }
        have_zero |= len == 0;
        let dport = ports[rng.gen_range(0..3)];
        // the source endpoint: usually a port of its own, sometimes the destination port; the sender (or ANOTHER application
        // of its machine, or nobody) listens on it, so that an answer has an entitled receiver
        let sport = if rng.gen_range(0..6) == 0 { dport } else { 1000 + id as u16 };
        match rng.gen_range(0..4) {
            0 | 1 => binds[m][app].push((own(m, 1), sport)),
            2 => binds[m][(app + 1) % 3].push((if rng.gen_range(0..2) == 0 { ANY } else { own(m, 1) }, sport)),
            _ => {}
        }
        sends[m][app].push(Dgram { at_us: [0u64, 0, 1000, 3000][rng.gen_range(0..4)], id: id as u32 + 1, src: (own(m, 1), sport), dst: (dst_addr, dport), len });
    }
    let bj: Vec<Value> = (0..nm).map(|m| json!((0..3).map(|a| json!(binds[m][a].iter().map(|b| json!([b.0, b.1])).collect::<Vec<_>>())).collect::<Vec<_>>())).collect();
    let replies = rng.gen_range(0..2) == 0;
    begin_run(run, json!({"arps":arps,"mtu":mtu,"nm":nm,"binds":bj,"replies":replies}));
    let machines: Vec<Arc<Machine>> = (0..nm)
        .map(|m| {
            let table: IpTable<Recipient> = [("0.0.0.0/0", Recipient::new(0, None))].into_iter().collect();
            let mut mach = Machine::new()
                .with(Udp::new())
                .with(Ipv4::new(table))
                .with(Pci::new([net.clone()]))
                .with(App::<0> { m, binds: binds[m][0].clone(), sends: sends[m][0].clone(), controller: m == 0, replies })
                .with(App::<1> { m, binds: binds[m][1].clone(), sends: sends[m][1].clone(), controller: false, replies })
                .with(App::<2> { m, binds: binds[m][2].clone(), sends: sends[m][2].clone(), controller: false, replies });
            if arps[m] {
                mach = mach.with(Arp::new());
            }
            mach.arc()
        })
        .collect();
    elvis_core::network::verif::set_frame_hook(Some(Arc::new(move |f: &elvis_core::network::verif::FrameInfo| {
        let ip = f.protocol == TypeId::of::<Ipv4>();
        emit(json!({"ev":"wire","ip":ip,"src":f.sender,"dst":f.destination.map(|d| if d > 1000 { -2 } else { d as i64 }).unwrap_or(-1),"len":f.bytes.len()}));
        vec![Duration::ZERO]
    })));
    let status = run_paused(async {
        mark_start();
        elvis_core::run_internet_with_timeout(&machines, Duration::from_secs(20)).await
    });
    elvis_core::network::verif::set_frame_hook(None);
    emit(json!({"ev":"end","status":format!("{:?}", status)}));
}

pub fn drive(a: &Args) {
    install_panic_hook();
    let out = a.str("out", "work/udp.ndjson");
    *OUT_PATH.lock().unwrap() = Some(out.clone());
    if a.u64("from", 0) == 0 {
        let _ = std::fs::remove_file(&out);
    }
    let seed = a.u64("seed", 1);
    let runs = a.u64("runs", 100);
    for run in a.u64("from", 0)..runs {
        let mut rng = SmallRng::seed_from_u64(seed.wrapping_mul(104729).wrapping_add(run));
        scenario(run, &mut rng);
        flush_to(&out, true);
    }
    println!("{}", json!({"runs": runs}));
}
