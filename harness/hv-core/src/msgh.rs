//! C07: random operation histories on real `Message`s; after every operation the whole pool is observed
//! through len(), iter(), to_vec() and == and logged for validation against Message.tla (byte-string semantics).
use crate::util::*;
use elvis_core::Message;
use rand::rngs::SmallRng;
use rand::{Rng, SeedableRng};
use serde_json::{json, Value};

fn bytes(rng: &mut SmallRng) -> Vec<u8> {
    let n = [0usize, 0, 1, 1, 2, 3, 5][rng.gen_range(0..7)];
    (0..n).map(|_| rng.gen_range(0..4u8) * 85).collect()
}

fn observe(pool: &[Message]) -> Value {
    let vecs: Vec<Vec<u8>> = pool.iter().map(|m| m.to_vec()).collect();
    let lens: Vec<usize> = pool.iter().map(|m| m.len()).collect();
    let iter_ok: Vec<bool> = pool.iter().zip(vecs.iter()).map(|(m, v)| m.iter().eq(v.iter().cloned()) && m.is_empty() == v.is_empty()).collect();
    let disp_ok: Vec<bool> = pool
        .iter()
        .zip(vecs.iter())
        .map(|(m, v)| format!("{m}") == v.iter().map(|b| format!("{b:02x} ")).collect::<String>())
        .collect();
    let eq: Vec<Vec<bool>> = pool.iter().map(|a| pool.iter().map(|b| a == b).collect()).collect();
    json!({"vecs": vecs, "lens": lens, "iter_ok": iter_ok, "disp_ok": disp_ok, "eq": eq})
}

pub fn drive(a: &Args) {
    crate::tcbh::install_quiet_panic_hook();
    let mut rng = SmallRng::seed_from_u64(a.u64("seed", 1));
    let runs = a.u64("runs", 200);
    let nops = a.u64("ops", 40);
    let mut out = NdJson::create(&a.str("out", "work/msg.ndjson"));
    let mut distinct = std::collections::BTreeSet::new();
    for run in 0..runs {
        let mut pool: Vec<Message> = vec![];
        out.put(&json!({"ev":"reset","run":run,"i":0}));
        for i in 1..=nops {
            let n = pool.len();
            let pick = |rng: &mut SmallRng| rng.gen_range(0..n.max(1));
            let op = if n == 0 { 0 } else { rng.gen_range(0..10) };
            let mut ev = match op {
                0 | 1 if n < 6 => {
                    let b = bytes(&mut rng);
                    pool.push(if rng.gen() { Message::new(b.clone()) } else { Message::from(b.as_slice()) });
                    json!({"op":"new","bytes":b})
                }
                2 | 3 => {
                    let (k, b) = (pick(&mut rng), bytes(&mut rng));
                    pool[k].header(b.clone());
                    json!({"op":"header","m":k + 1,"bytes":b})
                }
                4 => {
                    let (k, j) = (pick(&mut rng), pick(&mut rng));
                    let other = pool[j].clone();
                    pool[k].concatenate(other);
                    json!({"op":"concat","m":k + 1,"o":j + 1})
                }
                5 if n < 6 => {
                    let k = pick(&mut rng);
                    let c = pool[k].clone();
                    pool.push(c);
                    json!({"op":"clone","m":k + 1})
                }
                6 | 7 => {
                    let k = pick(&mut rng);
                    let len = pool[k].len();
                    let s = rng.gen_range(0..=len);
                    let e = rng.gen_range(s..=len);
                    let form = rng.gen_range(0..6);
                    let (start, cnt) = match form {
                        0 => { pool[k].slice(s..e); (s, e as i64 - s as i64) }
                        1 => { pool[k].slice(s..); (s, -1) }
                        2 => { pool[k].slice(..); (0, -1) }
                        3 if e > s => { pool[k].slice(s..=e - 1); (s, e as i64 - s as i64) }
                        4 => { pool[k].slice(..e); (0, e as i64) }
                        5 if e > 0 => { pool[k].slice(..=e - 1); (0, e as i64) }
                        _ => { pool[k].slice(s..e); (s, e as i64 - s as i64) }
                    };
                    distinct.insert(("slice", form, s == 0, e == len, s == e));
                    json!({"op":"slice","m":k + 1,"start":start,"n":cnt,"form":form})
                }
                8 if n < 6 => {
                    let k = pick(&mut rng);
                    let len = pool[k].len();
                    let c = [0, len, rng.gen_range(0..=len), rng.gen_range(0..=len)][rng.gen_range(0..4)];
                    let m = pool[k].cut(c);
                    pool.push(m);
                    distinct.insert(("cut", 0, c == 0, c == len, false));
                    json!({"op":"cut","m":k + 1,"n":c})
                }
                _ => {
                    let k = pick(&mut rng);
                    let len = pool[k].len();
                    let c = [0, len, rng.gen_range(0..=len), rng.gen_range(0..=len)][rng.gen_range(0..4)];
                    pool[k].remove_front(c);
                    distinct.insert(("remove_front", 0, c == 0, c == len, false));
                    json!({"op":"remove_front","m":k + 1,"n":c})
                }
            };
            let o = ev.as_object_mut().unwrap();
            o.insert("ev".into(), json!("op"));
            o.insert("run".into(), json!(run));
            o.insert("i".into(), json!(i));
            o.insert("obs".into(), observe(&pool));
            out.put(&ev);
        }
    }
    let lines = out.lines;
    out.finish();
    println!("{}", json!({"events": lines, "runs": runs, "distinct": distinct.len()}));
}
