//! C08 / C14: the real header encoders and decoders on lattice, random and mutated inputs, next to an independent
//! implementation (etherparse) for IPv4 / UDP / TCP. Every sample is one NDJSON event validated by TraceCodec.tla.
use crate::util::*;
use elvis_core::protocols::arp::arp_parsing::{ArpPacket, Operation};
use elvis_core::protocols::dhcp::dhcp_parsing::DhcpMessage;
use elvis_core::protocols::dns::dns_parsing::DnsMessage;
use elvis_core::protocols::ipv4::ipv4_parsing::{ControlFlags, Ipv4Header};
use elvis_core::protocols::ipv4::Ipv4Address;
use elvis_core::protocols::tcp::verif::TcpHeaderBuilder;
use elvis_core::protocols::tcp::TcpHeader;
use elvis_core::protocols::udp::verif::build_udp_header;
use elvis_core::protocols::udp::UdpHeader;
use rand::rngs::SmallRng;
use rand::{Rng, SeedableRng};
use serde_json::{json, Value};
use std::panic::{catch_unwind, AssertUnwindSafe};

fn v8(rng: &mut SmallRng) -> u8 {
    if rng.gen() { rng.gen() } else { [0u8, 1, 127, 128, 254, 255][rng.gen_range(0..6)] }
}
fn v16(rng: &mut SmallRng) -> u16 {
    if rng.gen() { rng.gen() } else { [0u16, 1, 255, 256, 32767, 32768, 65534, 65535][rng.gen_range(0..8)] }
}
fn a4(rng: &mut SmallRng) -> [u8; 4] {
    [v8(rng), v8(rng), v8(rng), v8(rng)]
}
fn be4(x: u32) -> [u8; 4] {
    x.to_be_bytes()
}

fn ipv4_fields(h: &Ipv4Header) -> Value {
    // the type of service is read through the typed accessors and put together as RFC 791 lays it out
    // (precedence 3 bits, D, T, R, two reserved bits): a constructor / accessor pair that agrees with itself but
    // not with the RFC is visible
    let t = &h.type_of_service;
    let tos = ((t.precedence() as u8) << 5) | ((t.delay() as u8) << 4) | ((t.throughput() as u8) << 3) | ((t.reliability() as u8) << 2) | (t.as_u8() & 3);
    json!({"tos": tos, "tl": h.total_length, "id": h.identification, "df": !h.flags.may_fragment(),
           "mf": !h.flags.is_last_fragment(), "fo": h.fragment_offset, "ttl": h.time_to_live, "proto": h.protocol, "ck": h.checksum,
           "src": h.source.to_bytes(), "dst": h.destination.to_bytes()})
}
fn tcp_fields(h: &TcpHeader) -> Value {
    // the control bits are read through the typed accessors and put together as RFC 9293 lays them out
    // (URG ACK PSH RST SYN FIN = 32 16 8 4 2 1), for the same reason as the type of service above
    let c = h.ctl;
    let ctl: u8 = ((c.urg() as u8) << 5) | ((c.ack() as u8) << 4) | ((c.psh() as u8) << 3) | ((c.rst() as u8) << 2) | ((c.syn() as u8) << 1) | (c.fin() as u8);
    json!({"sport": h.src_port, "dport": h.dst_port, "seq": be4(h.seq), "ack": be4(h.ack), "ctl": ctl, "wnd": h.wnd, "ck": h.checksum, "urg": h.urg})
}
fn udp_fields(h: &UdpHeader) -> Value {
    json!({"sport": h.source, "dport": h.destination, "len": h.length, "ck": h.checksum})
}
fn arp_fields(p: &ArpPacket) -> Value {
    json!({"htype": p.htype, "ptype": p.ptype, "hlen": p.hlen, "plen": p.plen, "oper": p.oper as u16,
           "smac": p.sender_mac.to_be_bytes()[2..8], "sip": p.sender_ip.to_bytes(), "tmac": p.target_mac.to_be_bytes()[2..8], "tip": p.target_ip.to_bytes()})
}
fn dns_fields(m: &DnsMessage) -> Value {
    json!({"id": m.header.id, "props": m.header.properties, "qd": m.header.qdcount, "an": m.header.ancount, "ns": m.header.nscount, "ar": m.header.arcount,
           "qname": m.question.qname, "aname": m.answer.name, "atype": m.answer.rec_type, "ttl": be4(m.answer.ttl), "rdata": m.answer.rdata})
}

/// C08: encode / decode / reference for representable header values
pub fn drive(a: &Args) {
    crate::tcbh::install_quiet_panic_hook();
    let mut rng = SmallRng::seed_from_u64(a.u64("seed", 1));
    let n = a.u64("n", 3000);
    // --checked: the compute_checksum build (C18): references carry real checksums, payloads are real bytes
    let checked = a.flag("checked");
    let mut out = NdJson::create(&a.str("out", "work/codec.ndjson"));
    let mut distinct = std::collections::BTreeSet::new();
    for i in 0..n {
        let kind = i % 6;
        let ev = match kind {
            0 => {
                let f = (v8(&mut rng) & 0xfc, rng.gen_range(20..=65535u16).max(if rng.gen() { 20 } else { 65535 }), v16(&mut rng), rng.gen::<bool>(), rng.gen::<bool>(),
                         [0u16, 1, 255, 256, 8191, rng.gen_range(0..8192)][rng.gen_range(0..6)], v8(&mut rng), v8(&mut rng), a4(&mut rng), a4(&mut rng));
                let tl = if rng.gen_range(0..3) == 0 { [20u16, 21, 65535][rng.gen_range(0..3)] } else { rng.gen_range(20..=65535) };
                let tos_typed = elvis_core::protocols::ipv4::ipv4_parsing::TypeOfService::new(
                    (f.0 >> 5).try_into().unwrap(), ((f.0 >> 4) & 1).try_into().unwrap(), ((f.0 >> 3) & 1).try_into().unwrap(), ((f.0 >> 2) & 1).try_into().unwrap());
                let h = Ipv4Header { ihl: 5, type_of_service: tos_typed, total_length: tl, identification: f.2, fragment_offset: f.5,
                    flags: ControlFlags::new(!f.3, !f.4), time_to_live: f.6, protocol: f.7, checksum: 0,
                    source: Ipv4Address::new(f.8), destination: Ipv4Address::new(f.9) };
                let enc = h.serialize().ok();
                let dec = enc.as_ref().and_then(|b| Ipv4Header::from_bytes(b.iter().cloned()).ok());
                let mut e = etherparse::Ipv4Header::new(tl - 20, f.6, etherparse::IpNumber::Udp, f.8, f.9);
                e.protocol = f.7;
                e.differentiated_services_code_point = f.0 >> 2;
                e.identification = f.2;
                e.dont_fragment = f.3;
                e.more_fragments = f.4;
                e.fragments_offset = f.5;
                e.header_checksum = 0;
                let mut rb = vec![];
                if checked {
                    e.write(&mut rb).unwrap();
                } else {
                    e.write_raw(&mut rb).unwrap();
                }
                let refdec = Ipv4Header::from_bytes(rb.iter().cloned()).ok();
                distinct.insert(("ipv4", f.3 as u8 + 2 * f.4 as u8, (f.5 > 0) as u8));
                json!({"ev":"codec","i":i,"kind":"ipv4","f":ipv4_fields(&h),"enc":enc,"dec":dec.map(|d| ipv4_fields(&d)),"ref":rb,"refdec":refdec.map(|d| ipv4_fields(&d))})
            }
            1 => {
                let (sp, dp, plen, src, dst) = (v16(&mut rng), v16(&mut rng), [0usize, 1, 2, 31, 1472, 65507, 65508][rng.gen_range(0..7)], a4(&mut rng), a4(&mut rng));
                let mut payload: Vec<u8> = (0..if checked { plen } else { plen.min(4000) }).map(|_| if checked { rng.gen() } else { 0 }).collect();
                let plen = payload.len();
                if checked && plen >= 2 && rng.gen_range(0..3) == 0 {
                    // constructed payload: the one's-complement sum of everything becomes 0xffff (or the checksum 0xffff)
                    let e0 = etherparse::UdpHeader::without_ipv4_checksum(sp, dp, plen).unwrap();
                    payload[0] = 0;
                    payload[1] = 0;
                    let c = e0.calc_checksum_ipv4_raw(src, dst, &payload).unwrap();
                    let target: u16 = if rng.gen() { c } else { c.wrapping_add(1) };
                    payload[0] = (target >> 8) as u8;
                    payload[1] = target as u8;
                }
                let enc = build_udp_header(Ipv4Address::new(src), sp, Ipv4Address::new(dst), dp, payload.iter().cloned(), plen).ok();
                let dec = enc.as_ref().and_then(|b| {
                    let mut p = b.clone();
                    p.extend(&payload);
                    UdpHeader::from_bytes_ipv4(p.iter().cloned(), p.len(), Ipv4Address::new(src), Ipv4Address::new(dst)).ok()
                });
                let mut e = etherparse::UdpHeader::without_ipv4_checksum(sp, dp, plen).unwrap();
                if checked {
                    e.checksum = e.calc_checksum_ipv4_raw(src, dst, &payload).unwrap();
                }
                let mut rb = vec![];
                e.write(&mut rb).unwrap();
                let mut p = rb.clone();
                p.extend(&payload);
                let refdec = UdpHeader::from_bytes_ipv4(p.iter().cloned(), p.len(), Ipv4Address::new(src), Ipv4Address::new(dst)).ok();
                distinct.insert(("udp", (plen % 2) as u8, (plen > 1000) as u8));
                json!({"ev":"codec","i":i,"kind":"udp","f":{"sport":sp,"dport":dp,"len":plen + 8,"ck":0},"plen":plen + 8,"src":src,"dst":dst,"pw": if checked { pwords(&payload) } else { vec![] },
                       "enc":enc,"dec":dec.map(|d| udp_fields(&d)),"ref":rb,"refdec":refdec.map(|d| udp_fields(&d))})
            }
            2 => {
                let (sp, dp, seq, ack, ctl, wnd, urg, src, dst) = (v16(&mut rng), v16(&mut rng), rng.gen::<u32>(), rng.gen::<u32>(), (i / 6 % 64) as u8, v16(&mut rng), v16(&mut rng), a4(&mut rng), a4(&mut rng));
                let mut b = TcpHeaderBuilder::new(sp, dp, seq).wnd(wnd);
                if ctl & 16 != 0 { b = b.ack(ack); }
                if ctl & 1 != 0 { b = b.fin(); }
                if ctl & 2 != 0 { b = b.syn(); }
                if ctl & 4 != 0 { b = b.rst(); }
                if ctl & 8 != 0 { b = b.psh(); }
                if ctl & 32 != 0 { b = b.urg(urg); }
                let ack = if ctl & 16 != 0 { ack } else { 0 };
                let urg = if ctl & 32 != 0 { urg } else { 0 };
                let mut payload: Vec<u8> = if checked { (0..[0usize, 1, 2, 7, 100, 1461, 65515][rng.gen_range(0..7)]).map(|_| rng.gen()).collect() } else { vec![] };
                let mut e = etherparse::TcpHeader::new(sp, dp, seq, wnd);
                e.acknowledgment_number = ack;
                e.fin = ctl & 1 != 0; e.syn = ctl & 2 != 0; e.rst = ctl & 4 != 0; e.psh = ctl & 8 != 0; e.ack = ctl & 16 != 0; e.urg = ctl & 32 != 0;
                e.urgent_pointer = urg;
                if checked && payload.len() >= 2 && rng.gen_range(0..3) == 0 {
                    // constructed payload: the sum of everything but the checksum field becomes 0xffff, a conforming
                    // sender then transmits 0x0000
                    payload[0] = 0;
                    payload[1] = 0;
                    let c = e.calc_checksum_ipv4_raw(src, dst, &payload).unwrap();
                    payload[0] = (c >> 8) as u8;
                    payload[1] = c as u8;
                }
                let h = b.build(Ipv4Address::new(src), Ipv4Address::new(dst), payload.iter().cloned(), payload.len()).ok();
                let enc = h.map(|h| h.serialize());
                let dec = enc.as_ref().and_then(|b| {
                    let mut p = b.clone();
                    p.extend(&payload);
                    TcpHeader::from_bytes(p.iter().cloned(), p.len(), Ipv4Address::new(src), Ipv4Address::new(dst)).ok()
                });
                e.checksum = if checked { e.calc_checksum_ipv4_raw(src, dst, &payload).unwrap() } else { 0 };
                let mut rb = vec![];
                e.write(&mut rb).unwrap();
                let refdec = {
                    let mut p = rb.clone();
                    p.extend(&payload);
                    TcpHeader::from_bytes(p.iter().cloned(), p.len(), Ipv4Address::new(src), Ipv4Address::new(dst)).ok()
                };
                distinct.insert(("tcp", ctl, 0));
                json!({"ev":"codec","i":i,"kind":"tcp","f":{"sport":sp,"dport":dp,"seq":be4(seq),"ack":be4(ack),"ctl":ctl,"wnd":wnd,"ck":0,"urg":urg},
                       "plen":20 + payload.len(),"src":src,"dst":dst,"pw":pwords(&payload),"enc":enc,"dec":dec.map(|d| tcp_fields(&d)),"ref":rb,"refdec":refdec.map(|d| tcp_fields(&d))})
            }
            3 => {
                let mac = |rng: &mut SmallRng| -> u64 { [0u64, 1, 0xffff_ffff_ffff, 0x8000_0000_0000, rng.gen::<u64>() & 0xffff_ffff_ffff][rng.gen_range(0..5)] };
                let (sm, tm, sip, tip) = (mac(&mut rng), mac(&mut rng), a4(&mut rng), a4(&mut rng));
                let p = if rng.gen() { ArpPacket::new_request(sm, Ipv4Address::new(sip), Ipv4Address::new(tip)) } else { ArpPacket::new_reply(sm, Ipv4Address::new(sip), tm, Ipv4Address::new(tip)) };
                let enc = p.build();
                let dec = ArpPacket::from_bytes(enc.iter().cloned()).ok();
                let _ = Operation::Request;
                distinct.insert(("arp", p.oper as u8, 0));
                json!({"ev":"codec","i":i,"kind":"arp","f":arp_fields(&p),"enc":enc,"dec":dec.map(|d| arp_fields(&d)),"ref":Value::Null,"refdec":Value::Null})
            }
            4 => {
                // DNS and DHCP have private fields: a well-formed byte string is decoded and re-encoded
                let name = |rng: &mut SmallRng| -> Vec<u8> { (0..[0usize, 1, 3, 12, 40][rng.gen_range(0..5)]).map(|_| { let c = rng.gen_range(33..=126u8); c }).collect() };
                let (qn, an) = (name(&mut rng), name(&mut rng));
                let mut b: Vec<u8> = vec![];
                for _ in 0..6 { b.extend(v16(&mut rng).to_be_bytes()); }
                b.extend(&qn); b.push(b' '); b.extend(v16(&mut rng).to_be_bytes()); b.extend(v16(&mut rng).to_be_bytes());
                b.extend(&an); b.push(b' '); b.extend(v16(&mut rng).to_be_bytes()); b.extend(v16(&mut rng).to_be_bytes());
                b.extend(rng.gen::<u32>().to_be_bytes());
                let rdl = [0u16, 4, 4, 7][rng.gen_range(0..4)];
                b.extend(rdl.to_be_bytes());
                for _ in 0..rdl { b.push(rng.gen()); }
                let dec = DnsMessage::from_bytes(b.iter().cloned()).ok();
                let fields = dec.as_ref().map(dns_fields);
                let re = dec.map(|m| m.to_message().unwrap().to_vec());
                distinct.insert(("dns", qn.len().min(3) as u8, rdl as u8));
                json!({"ev":"codec","i":i,"kind":"dns","f":Value::Null,"enc":re,"dec":fields,"ref":b,"refdec":Value::Null})
            }
            _ => {
                let s = |rng: &mut SmallRng| -> Vec<u8> { (0..[0usize, 1, 4, 20][rng.gen_range(0..4)]).map(|_| rng.gen_range(1..=126u8)).collect() };
                let mut b: Vec<u8> = (0..29).map(|_| v8(&mut rng)).collect();
                let ty = rng.gen_range(1..=7u8);
                b.push(ty);
                b.extend(s(&mut rng)); b.push(0); b.extend(s(&mut rng)); b.push(0);
                let dec = DhcpMessage::from_bytes(b.iter().cloned()).ok();
                let fields = dec.as_ref().map(|m| json!({"type": ty, "yiaddr": m.your_ip.to_bytes(), "op": m.op}));
                let re = dec.map(|m| DhcpMessage::to_message(m).unwrap().to_vec());
                distinct.insert(("dhcp", ty, 0));
                json!({"ev":"codec","i":i,"kind":"dhcp","f":Value::Null,"enc":re,"dec":fields,"ref":b,"refdec":Value::Null})
            }
        };
        out.put(&flagged(ev));
    }
    let lines = out.lines;
    out.finish();
    println!("{}", json!({"events": lines, "distinct": distinct.len()}));
}

/// The payload as 16-bit words for RFC 1071 (odd byte padded with zero). Long payloads are folded by the harness
/// into one's-complement partial sums of blocks of 256 words, so that TLC adds at most a few hundred numbers.
fn pwords(p: &[u8]) -> Vec<u32> {
    let words: Vec<u32> = p.chunks(2).map(|c| (c[0] as u32) << 8 | *c.get(1).unwrap_or(&0) as u32).collect();
    if words.len() <= 128 {
        return words;
    }
    words
        .chunks(256)
        .map(|blk| {
            let mut s: u32 = 0;
            for w in blk {
                s += w;
                s = (s & 0xffff) + (s >> 16);
            }
            s
        })
        .collect()
}

/// TLC cannot compare a JSON null with a record: absent members become an explicit flag plus a dummy value
fn flagged(mut ev: Value) -> Value {
    let o = ev.as_object_mut().unwrap();
    for k in ["enc", "ref"] {
        let present = !o[k].is_null();
        o.insert(format!("{k}_ok"), json!(present));
        if !present {
            o.insert(k.to_string(), json!([]));
        }
    }
    for k in ["dec", "refdec", "f"] {
        let present = !o[k].is_null();
        o.insert(format!("{k}_ok"), json!(present));
        if !present {
            o.insert(k.to_string(), json!({"none": true}));
        }
    }
    ev
}

/// a packet with correct checksums, built by the independent implementation (compute_checksum build)
fn checked_packet(rng: &mut SmallRng, kind: &str, src: [u8; 4], dst: [u8; 4]) -> Vec<u8> {
    let payload: Vec<u8> = (0..[0usize, 1, 2, 9, 40][rng.gen_range(0..5)]).map(|_| rng.gen()).collect();
    let mut b = vec![];
    match kind {
        "ipv4" => {
            let mut e = etherparse::Ipv4Header::new(payload.len() as u16, v8(rng), etherparse::IpNumber::Udp, src, dst);
            e.protocol = v8(rng);
            e.identification = v16(rng);
            e.write(&mut b).unwrap();
        }
        "udp" => {
            let mut e = etherparse::UdpHeader::without_ipv4_checksum(v16(rng), v16(rng), payload.len()).unwrap();
            e.checksum = e.calc_checksum_ipv4_raw(src, dst, &payload).unwrap();
            e.write(&mut b).unwrap();
            b.extend(&payload);
        }
        _ => {
            let mut e = etherparse::TcpHeader::new(v16(rng), v16(rng), rng.gen(), v16(rng));
            e.ack = rng.gen();
            e.acknowledgment_number = rng.gen();
            e.checksum = e.calc_checksum_ipv4_raw(src, dst, &payload).unwrap();
            e.write(&mut b).unwrap();
            b.extend(&payload);
        }
    }
    b
}

fn valid_packet(rng: &mut SmallRng, kind: &str) -> Vec<u8> {
    match kind {
        "ipv4" => {
            let mut e = etherparse::Ipv4Header::new(rng.gen_range(0..100), v8(rng), etherparse::IpNumber::Udp, a4(rng), a4(rng));
            e.protocol = v8(rng);
            e.header_checksum = 0;
            e.dont_fragment = rng.gen();
            let mut b = vec![];
            e.write_raw(&mut b).unwrap();
            b
        }
        "udp" => {
            let plen = rng.gen_range(0..20usize);
            let mut b = vec![];
            etherparse::UdpHeader::without_ipv4_checksum(v16(rng), v16(rng), plen).unwrap().write(&mut b).unwrap();
            b.extend((0..plen).map(|_| rng.gen::<u8>()));
            b
        }
        "tcp" => {
            let mut e = etherparse::TcpHeader::new(v16(rng), v16(rng), rng.gen(), v16(rng));
            e.checksum = 0;
            e.ack = rng.gen();
            let mut b = vec![];
            e.write(&mut b).unwrap();
            b.extend((0..rng.gen_range(0..12usize)).map(|_| rng.gen::<u8>()));
            b
        }
        "arp" => ArpPacket::new_request(rng.gen::<u64>() & 0xffff_ffff_ffff, Ipv4Address::new(a4(rng)), Ipv4Address::new(a4(rng))).build(),
        "dns" => {
            let mut b: Vec<u8> = (0..12).map(|_| rng.gen()).collect();
            b.extend(b"ab.c"); b.push(b' '); b.extend([0, 1, 0, 1]);
            b.extend(b"ab.c"); b.push(b' '); b.extend([0, 1, 0, 1, 0, 0, 0, 9, 0, 4, 1, 2, 3, 4]);
            b
        }
        _ => {
            let mut b: Vec<u8> = (0..29).map(|_| rng.gen()).collect();
            b.push(rng.gen_range(1..=7));
            b.extend(b"srv"); b.push(0); b.extend(b"boot"); b.push(0);
            b
        }
    }
}

/// C14 (decoders): arbitrary byte strings through every real decoder under catch_unwind
pub fn decode_drive(a: &Args) {
    crate::tcbh::install_quiet_panic_hook();
    let mut rng = SmallRng::seed_from_u64(a.u64("seed", 1));
    let n = a.u64("n", 4000);
    let checked = a.flag("checked");
    let mut out = NdJson::create(&a.str("out", "work/decode.ndjson"));
    let kinds = ["ipv4", "udp", "tcp", "arp", "dns", "dhcp"];
    let mut distinct = std::collections::BTreeSet::new();
    for i in 0..n {
        let kind = kinds[(i % if checked { 3 } else { 6 }) as usize];
        let (src, dst) = (a4(&mut rng), a4(&mut rng));
        let mut b = if checked { checked_packet(&mut rng, kind, src, dst) } else { valid_packet(&mut rng, kind) };
        let how = if checked { [0, 7, 7, 8, 8, 1, 9, 10][rng.gen_range(0..8)] } else { rng.gen_range(0..7) };
        match how {
            0 => {} // valid
            1 => { let l = rng.gen_range(0..=b.len()); b.truncate(l); } // truncation at every length
            2 | 3 => { if !b.is_empty() { let k = rng.gen_range(0..b.len()); b[k] = [0u8, 1, 0x0f, 0x40, 0x45, 0x46, 0x50, 0x60, 0x80, 0xf8, 0xff, 8, 9][rng.gen_range(0..13)]; } } // one field byte mutated
            4 => { b = (0..rng.gen_range(0..64usize)).map(|_| rng.gen()).collect(); } // random bytes
            7 => { if !b.is_empty() { let k = rng.gen_range(0..b.len() * 8); b[k / 8] ^= 1 << (k % 8); } } // single bit corruption
            8 => { if !b.is_empty() { for _ in 0..2 { let k = rng.gen_range(0..b.len() * 8); b[k / 8] ^= 1 << (k % 8); } } } // double bit corruption
            // the checksum field itself overwritten with one of the two representations of zero (several bits at once)
            9 | 10 => {
                let at = match kind { "ipv4" => 10, "udp" => 6, _ => 16 };
                if b.len() > at + 1 {
                    let v = if how == 9 { 0x00 } else { 0xff };
                    b[at] = v;
                    b[at + 1] = v;
                }
            }
            5 => { if b.len() > 30 { let k = 29; b[k] = [0u8, 8, 9, 128, 255][rng.gen_range(0..5)]; } } // DHCP type / others: extreme
            _ => { for x in b.iter_mut().take(8).skip(2) { *x = 0xff; } } // extreme length fields
        }
        let plen = b.len();
        let bb = b.clone();
        let res = catch_unwind(AssertUnwindSafe(|| -> Option<Value> {
            match kind {
                "ipv4" => Ipv4Header::from_bytes(bb.iter().cloned()).ok().map(|h| ipv4_fields(&h)),
                "udp" => UdpHeader::from_bytes_ipv4(bb.iter().cloned(), plen, Ipv4Address::new(src), Ipv4Address::new(dst)).ok().map(|h| udp_fields(&h)),
                "tcp" => TcpHeader::from_bytes(bb.iter().cloned(), plen, Ipv4Address::new(src), Ipv4Address::new(dst)).ok().map(|h| tcp_fields(&h)),
                "arp" => ArpPacket::from_bytes(bb.iter().cloned()).ok().map(|p| arp_fields(&p)),
                "dns" => DnsMessage::from_bytes(bb.iter().cloned()).ok().map(|m| dns_fields(&m)),
                _ => DhcpMessage::from_bytes(bb.iter().cloned()).ok().map(|m| json!({"type": m.msg_type as u8, "yiaddr": m.your_ip.to_bytes(), "op": m.op})),
            }
        }));
        let (r, f, msg) = match res {
            Ok(Some(f)) => ("ok", f, String::new()),
            Ok(None) => ("err", Value::Null, String::new()),
            Err(_) => { let (m, l) = crate::tcbh::take_panic(); ("panic", Value::Null, format!("{m} at {l}")) }
        };
        distinct.insert((kind, how, r));
        let f = if f.is_null() { json!({"none": true}) } else { f };
        out.put(&json!({"ev":"dec","i":i,"kind":kind,"b":b,"plen":plen,"src":src,"dst":dst,"res":r,"f":f,"msg":msg}));
    }
    let lines = out.lines;
    out.finish();
    println!("{}", json!({"events": lines, "distinct": distinct.len()}));
}
