//! SocketAPI's accept path against concurrent deliveries (SockApi.tla, actions AcceptTake / AcceptDrain / Demux):
//! a real SocketAPI on a running machine; deliveries are made by calling `SocketAPI::demux` directly, the way the
//! transport below does, from a thread of its own, while the application accepts the connection and reads.
//! On the current_thread runtime the two steps of accept cannot be separated by a delivery (no await between them);
//! on a multi_thread runtime they can.  The driver records what the accepted socket reads, message by message.
use crate::simh::*;
use crate::util::*;
use elvis_core::machine::Machine;
use elvis_core::protocol::{DemuxError, StartError};
use elvis_core::protocols::ipv4::{Ipv4, Ipv4Address, Recipient};
use elvis_core::protocols::socket_api::socket::{ProtocolFamily, SocketType};
use elvis_core::protocols::{Arp, Endpoint, Endpoints, Pci, SocketAPI, Tcp, Udp};
use elvis_core::session::SendError;
use elvis_core::{Control, IpTable, Message, Network, Protocol, Session, Shutdown};
use serde_json::json;
use std::sync::Arc;
use std::time::Duration;
use tokio::sync::Barrier;

const PORT: u16 = 700;
const SERVER_IP: [u8; 4] = [10, 9, 0, 1];

struct Below;
impl Session for Below {
    fn send(&self, _m: Message, _ma: Arc<Machine>) -> Result<(), SendError> {
        Ok(())
    }
}

struct App {
    conns: usize,
    msgs: usize,
    any: bool,
}

fn body(conn: usize, k: usize) -> Vec<u8> {
    vec![conn as u8, (conn >> 8) as u8, k as u8, (k >> 8) as u8, 0x5a]
}

#[async_trait::async_trait]
impl Protocol for App {
    async fn start(&self, shutdown: Shutdown, initialized: Arc<Barrier>, machine: Arc<Machine>) -> Result<(), StartError> {
        let api = machine.protocol::<SocketAPI>().unwrap();
        let mut lsock = api.new_socket(ProtocolFamily::INET, SocketType::Datagram, machine.clone()).await.unwrap();
        let addr = if self.any { Ipv4Address::CURRENT_NETWORK } else { Ipv4Address::new(SERVER_IP) };
        lsock.bind(Endpoint::new(addr, PORT)).unwrap();
        lsock.listen(4).unwrap();
        initialized.wait().await;
        for conn in 0..self.conns {
            let remote = Endpoint::new(Ipv4Address::new([10, 9, 1, 7]), 2000 + conn as u16);
            let eps = Endpoints::new(Endpoint::new(Ipv4Address::new(SERVER_IP), PORT), remote);
            let (api2, machine2, n) = (api.clone(), machine.clone(), self.msgs);
            let progress = Arc::new(std::sync::atomic::AtomicUsize::new(0));
            let progress2 = progress.clone();
            // the transport below: delivers message after message of this connection, as fast as it can
            let producer = std::thread::spawn(move || {
                let mut refused = 0usize;
                for k in 0..n {
                    let failed = {
                        let mut control = Control::new();
                        control.insert(eps);
                        api2.demux(Message::new(body(conn, k)), Arc::new(Below), control, machine2.clone()).is_err()
                    };
                    if failed {
                        refused += 1;
                    }
                    progress2.store(k + 1, std::sync::atomic::Ordering::Relaxed);
                }
                refused
            });
            let mut sock = match lsock.accept().await {
                Ok(s) => s,
                Err(_) => {
                    // (the run's own time limit cut the scenario short: what was accepted so far has been judged)
                    emit(json!({"ev":"rcut","conn":conn}));
                    break;
                }
            };
            let at_accept = progress.load(std::sync::atomic::Ordering::Relaxed);
            let refused = tokio::task::block_in_place(|| producer.join()).unwrap_or(usize::MAX);
            let mut got: Vec<i64> = vec![];
            while got.len().saturating_add(refused) < self.msgs {
                match tokio::time::timeout(Duration::from_secs(2), sock.recv_msg()).await {
                    Ok(Ok(m)) => {
                        let b = m.to_vec();
                        got.push(if b.len() == 5 && b[0] as usize + ((b[1] as usize) << 8) == conn && b[4] == 0x5a { b[2] as i64 + ((b[3] as i64) << 8) } else { -1 });
                    }
                    _ => break,
                }
            }
            let in_order = got.windows(2).all(|w| w[0] < w[1]) && got.iter().all(|x| *x >= 0);
            // (only disorder is reported message by message)
            emit(json!({"ev":"rconn","conn":conn,"sent":self.msgs,"refused":refused,"at_accept":at_accept,"got":got.len(),"in_order":in_order,
                        "seq": if in_order { vec![] } else { got.clone() }}));
        }
        shutdown.shut_down();
        Ok(())
    }
    fn demux(&self, _m: Message, _c: Arc<dyn Session>, _ctl: Control, _ma: Arc<Machine>) -> Result<(), DemuxError> {
        Ok(())
    }
}

pub fn drive(a: &Args) {
    install_panic_hook();
    let out = a.str("out", "work/sockrace.ndjson");
    *OUT_PATH.lock().unwrap() = Some(out.clone());
    if a.u64("from", 0) == 0 {
        let _ = std::fs::remove_file(&out);
    }
    let workers = a.u64("workers", 0) as usize;
    let conns = a.u64("conns", 200) as usize;
    let msgs = a.u64("msgs", 60) as usize;
    for run in a.u64("from", 0)..a.u64("runs", 1) {
        begin_run(run, json!({"workers":workers,"conns":conns,"msgs":msgs,"stream":false,"backlog":false,"totals":[],"nwrites":[],"greet":0}));
        let table: IpTable<Recipient> = [("0.0.0.0/0", Recipient::new(0, None))].into_iter().collect();
        let machines = vec![Machine::new()
            .with(Udp::new())
            .with(Tcp::new())
            .with(Ipv4::new(table))
            .with(Arp::new())
            .with(Pci::new([Network::basic()]))
            .with(SocketAPI::new(Some(Ipv4Address::new(SERVER_IP))))
            .with(App { conns, msgs, any: run % 2 == 1 })
            .arc()];
        let fut = async {
            mark_start();
            elvis_core::run_internet_with_timeout(&machines, Duration::from_secs(120)).await
        };
        let _ = if workers == 0 { run_paused(fut) } else { run_multi(workers, fut) };
        emit(json!({"ev":"end"}));
        flush_to(&out, true);
    }
    println!("{}", json!({"runs": a.u64("runs", 1)}));
}
