//! C09: the real IpTable / Ipv4Net / Ipv4Mask / cidr_to_ip on 32-bit values; addresses are logged as byte tuples.
use crate::util::*;
use elvis_core::protocols::arp::subnetting::{cidr_to_ip, Ipv4Mask, Ipv4Net};
use elvis_core::protocols::ipv4::Ipv4Address;
use elvis_core::IpTable;
use rand::rngs::SmallRng;
use rand::{Rng, SeedableRng};
use serde_json::{json, Value};

fn b(a: Ipv4Address) -> Value {
    json!(a.to_bytes())
}
fn addr(x: u32) -> Ipv4Address {
    Ipv4Address::from(x)
}
fn pick_u32(rng: &mut SmallRng, pool: &[u32]) -> u32 {
    match rng.gen_range(0..6) {
        0 => rng.gen(),
        1 => [0u32, 1, 0xffff_ffff, 0xffff_fffe, 0x8000_0000, 0x7fff_ffff, 0x0a00_0000, 0xffff_fff0][rng.gen_range(0..8)],
        _ if !pool.is_empty() => {
            let base = pool[rng.gen_range(0..pool.len())];
            base.wrapping_add([0u32, 1, 0xffff_ffff, 2, 255, 256, 0xffff_ff00][rng.gen_range(0..7)])
        }
        _ => rng.gen(),
    }
}
fn pick_m(rng: &mut SmallRng) -> u32 {
    match rng.gen_range(0..4) {
        0 => [0, 1, 8, 16, 24, 31, 32][rng.gen_range(0..7)],
        _ => rng.gen_range(0..=32),
    }
}

pub fn drive(a: &Args) {
    let mut rng = SmallRng::seed_from_u64(a.u64("seed", 1));
    let runs = a.u64("runs", 200);
    let nops = a.u64("ops", 40);
    let mut out = NdJson::create(&a.str("out", "work/iptab.ndjson"));
    let mut distinct = std::collections::BTreeSet::new();
    let mut masks_hit = std::collections::BTreeSet::new();
    for run in 0..runs {
        out.put(&json!({"ev":"reset","run":run,"i":0}));
        let mut t: IpTable<u32> = IpTable::new();
        let mut pool: Vec<u32> = vec![];
        let mut nets: Vec<(u32, u32)> = vec![];
        for i in 1..=nops {
            let r = rng.gen_range(0..12);
            if r < 4 {
                // add / add_direct / add_cidr; nested, disjoint and duplicate networks
                let (ip, m) = if !nets.is_empty() && rng.gen_range(0..3) == 0 {
                    let (ip, m) = nets[rng.gen_range(0..nets.len())];
                    match rng.gen_range(0..3) {
                        0 => (ip, m),
                        1 => (ip, (m + rng.gen_range(1..8)).min(32)),
                        _ => (ip, m.saturating_sub(rng.gen_range(1..8))),
                    }
                } else {
                    (pick_u32(&mut rng, &pool), pick_m(&mut rng))
                };
                let v = rng.gen_range(0..1000u32);
                pool.push(ip);
                nets.push((ip, m));
                masks_hit.insert(m);
                let how = rng.gen_range(0..3);
                let (op, m) = match how {
                    0 => {
                        t.add(Ipv4Net::new(addr(ip), Ipv4Mask::from_bitcount(m)), v);
                        ("add", m)
                    }
                    1 => {
                        t.add_direct(addr(ip), v);
                        ("add_direct", 32)
                    }
                    _ => {
                        t.add_cidr(&format!("{}/{}", addr(ip), m), v);
                        ("add_cidr", m)
                    }
                };
                out.put(&json!({"ev":"tab","run":run,"i":i,"op":op,"ip":b(addr(ip)),"m":m,"v":v}));
            } else if r < 5 && !nets.is_empty() {
                let (ip, m) = nets[rng.gen_range(0..nets.len())];
                let got = t.remove(Ipv4Net::new(addr(ip), Ipv4Mask::from_bitcount(m)));
                out.put(&json!({"ev":"tab","run":run,"i":i,"op":"remove","ip":b(addr(ip)),"m":m,"v":got.map(|x| x as i64).unwrap_or(-1)}));
            } else if r < 10 {
                // lookup: random, pool-adjacent and every boundary of a stored network
                let x = if !nets.is_empty() && rng.gen() {
                    let (ip, m) = nets[rng.gen_range(0..nets.len())];
                    let n = Ipv4Net::new(addr(ip), Ipv4Mask::from_bitcount(m));
                    let (id, bc) = (n.id().to_u32(), n.broadcast().to_u32());
                    [id, id.wrapping_sub(1), bc, bc.wrapping_add(1)][rng.gen_range(0..4)]
                } else {
                    pick_u32(&mut rng, &pool)
                };
                let res = t.get_recipient(addr(x));
                distinct.insert(("lookup", res.is_some(), nets.len().min(6)));
                out.put(&json!({"ev":"tab","run":run,"i":i,"op":"lookup","ip":b(addr(x)),"m":0,"v":res.map(|x| x as i64).unwrap_or(-1)}));
            } else if r < 11 {
                let list: Vec<Value> = t.iter().map(|(n, v)| json!([b(n.id()), n.mask().count_ones(), v])).collect();
                out.put(&json!({"ev":"tab","run":run,"i":i,"op":"iter","ip":[0,0,0,0],"m":0,"v":0,"list":list}));
            } else {
                // subnet arithmetic
                let (ip, m) = (pick_u32(&mut rng, &pool), pick_m(&mut rng));
                let n = Ipv4Net::new(addr(ip), Ipv4Mask::from_bitcount(m));
                masks_hit.insert(m);
                let mut contains = vec![];
                for _ in 0..4 {
                    let x = [n.id().to_u32(), n.id().to_u32().wrapping_sub(1), n.broadcast().to_u32(), n.broadcast().to_u32().wrapping_add(1), pick_u32(&mut rng, &pool)][rng.gen_range(0..5)];
                    contains.push(json!([b(addr(x)), n.contains(addr(x))]));
                }
                let mut ovl = vec![];
                for _ in 0..3 {
                    let (ip2, m2) = if rng.gen() { (ip.wrapping_add(rng.gen_range(0..512)), pick_m(&mut rng)) } else { (pick_u32(&mut rng, &pool), pick_m(&mut rng)) };
                    let n2 = Ipv4Net::new(addr(ip2), Ipv4Mask::from_bitcount(m2));
                    ovl.push(json!([b(addr(ip2)), m2, n.overlaps(n2), n2.overlaps(n)]));
                }
                let mut r2n = vec![];
                for _ in 0..3 {
                    let (lo, hi) = match rng.gen_range(0..4) {
                        0 => (n.id().to_u32(), n.broadcast().to_u32()),
                        1 => (n.id().to_u32().wrapping_add(1), n.broadcast().to_u32()),
                        2 => (n.id().to_u32(), n.broadcast().to_u32().wrapping_sub(rng.gen_range(0..2))),
                        _ => (pick_u32(&mut rng, &pool), pick_u32(&mut rng, &pool)),
                    };
                    let res = Ipv4Net::try_from(addr(lo)..=addr(hi));
                    let (rm, rid) = match res {
                        Ok(x) => (x.mask().count_ones() as i64, b(x.id())),
                        Err(_) => (-1, json!([0, 0, 0, 0])),
                    };
                    r2n.push(json!([b(addr(lo)), b(addr(hi)), rm, rid]));
                }
                let text = format!("{}/{}", addr(ip), m);
                let parsed = cidr_to_ip(&text);
                let cidr = match parsed {
                    Ok((pip, pm)) => json!({"ok":true,"ip":b(pip),"m":pm.count_ones()}),
                    Err(_) => json!({"ok":false,"ip":[0,0,0,0],"m":0}),
                };
                out.put(&json!({"ev":"net","run":run,"i":i,"ip":b(addr(ip)),"m":m,"id":b(n.id()),"bcast":b(n.broadcast()),
                    "ones":n.mask().count_ones(),"maskb":b(n.mask().to_ipv4_address()),"contains":contains,"ovl":ovl,"r2n":r2n,"cidr":cidr}));
            }
        }
    }
    let lines = out.lines;
    out.finish();
    println!("{}", json!({"events": lines, "runs": runs, "distinct": distinct.len() + masks_hit.len(), "mask_lengths_hit": masks_hit.len()}));
}
