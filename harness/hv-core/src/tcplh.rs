//! The TCP protocol layer (tcp.rs: listen table, session table, demultiplexing; tcp_session.rs: the session
//! task) driven WITHOUT the socket layer: harness applications call `Tcp::listen` / `Tcp::open`, are notified
//! of new connections, exchange position-coded data through the sessions, and a machine that has only a
//! Pci tap puts hand-made TCP segments on the wire (to listening, closed and connected endpoints).  The frame
//! hook records every TCP segment.  Judged by TraceTcpLayer.tla.
use crate::simh::*;
use crate::util::*;
use elvis_core::machine::Machine;
use elvis_core::network::NetworkBuilder;
use elvis_core::protocol::{DemuxError, NotifyType, StartError};
use elvis_core::protocols::ipv4::{Ipv4, Ipv4Address, Recipient};
use elvis_core::protocols::{Endpoint, Endpoints, Pci, Tcp};
use elvis_core::{Control, IpTable, Message, Protocol, Session, Shutdown};
use rand::rngs::SmallRng;
use rand::{Rng, SeedableRng};
use serde_json::{json, Value};
use std::any::TypeId;
use std::collections::HashMap;
use std::sync::{Arc, Mutex};
use std::time::Duration;
use tokio::sync::Barrier;

#[derive(Clone, Debug)]
struct Open1 {
    at_us: u64,
    id: u32,
    local: ([u8; 4], u16),
    remote: ([u8; 4], u16),
    bytes: usize,
}

struct App<const N: usize> {
    m: usize,
    listens: Vec<([u8; 4], u16)>,
    opens: Vec<Open1>,
    reply_bytes: usize,
    controller: bool,
    got: Mutex<HashMap<Endpoints, usize>>,
}

fn ep(a: ([u8; 4], u16)) -> Endpoint {
    Endpoint::new(Ipv4Address::new(a.0), a.1)
}
fn epj(e: Endpoint) -> Value {
    json!([e.address.to_bytes(), e.port])
}
/// byte k of the stream that the side with local port p sends
fn code(port: u16, k: usize) -> u8 {
    ((port as usize * 37 + k * 11) % 251) as u8
}

#[async_trait::async_trait]
impl<const N: usize> Protocol for App<N> {
    async fn start(&self, shutdown: Shutdown, initialized: Arc<Barrier>, machine: Arc<Machine>) -> Result<(), StartError> {
        let tcp = machine.protocol::<Tcp>().unwrap();
        for l in self.listens.iter() {
            tokio::task::yield_now().await;
            let r = tcp.listen(TypeId::of::<Self>(), ep(*l), machine.clone());
            emit(json!({"ev":"tlisten","m":self.m,"app":N,"addr":l.0,"port":l.1,"ok":r.is_ok()}));
        }
        initialized.wait().await;
        let mut opens = self.opens.clone();
        opens.sort_by_key(|o| o.at_us);
        let mut now = 0u64;
        for o in opens {
            if o.at_us > now {
                tokio::time::sleep(Duration::from_micros(o.at_us - now)).await;
                now = o.at_us;
            }
            let eps = Endpoints::new(ep(o.local), ep(o.remote));
            let r = tcp.open(TypeId::of::<Self>(), eps, machine.clone()).await;
            let res = match &r {
                Ok(_) => "ok",
                Err(elvis_core::protocols::tcp::OpenError::Existing(_)) => "existing",
                Err(_) => "err",
            };
            emit(json!({"ev":"topen","m":self.m,"app":N,"id":o.id,"local":epj(eps.local),"remote":epj(eps.remote),"res":res,"bytes":o.bytes}));
        }
        if self.controller {
            tokio::time::sleep(Duration::from_secs(6)).await;
            shutdown.shut_down();
        }
        Ok(())
    }

    fn notify(&self, n: NotifyType, caller: Arc<dyn Session>, control: Control) {
        if n != NotifyType::NewConnection {
            return;
        }
        let eps = match control.get::<Endpoints>() {
            Some(e) => *e,
            None => {
                emit(json!({"ev":"tnew","m":self.m,"app":N,"local":Value::Null,"remote":Value::Null,"send":0}));
                return;
            }
        };
        // the opener sends the bytes of its script, the passive side answers with reply_bytes
        let mine = self.opens.iter().find(|o| ep(o.local) == eps.local && ep(o.remote) == eps.remote);
        let n = mine.map(|o| o.bytes).unwrap_or(self.reply_bytes);
        emit(json!({"ev":"tnew","m":self.m,"app":N,"local":epj(eps.local),"remote":epj(eps.remote),"send":n,"active":mine.is_some()}));
        if n > 0 {
            let data: Vec<u8> = (0..n).map(|k| code(eps.local.port, k)).collect();
            // two writes, to exercise the instruction queue of the session
            let cut = n / 3;
            let m = elvis_core::machine::Machine::new().arc(); // Session::send of TcpSession ignores the machine
            let _ = caller.send(Message::new(data[..cut].to_vec()), m.clone());
            let _ = caller.send(Message::new(data[cut..].to_vec()), m);
        }
    }

    fn demux(&self, message: Message, _caller: Arc<dyn Session>, control: Control, _machine: Arc<Machine>) -> Result<(), DemuxError> {
        let bytes = message.to_vec();
        match control.get::<Endpoints>() {
            Some(eps) => {
                let mut g = self.got.lock().unwrap();
                let off = *g.get(eps).unwrap_or(&0);
                let intact = bytes.iter().enumerate().all(|(k, b)| *b == code(eps.remote.port, off + k));
                g.insert(*eps, off + bytes.len());
                emit(json!({"ev":"tdata","m":self.m,"app":N,"local":epj(eps.local),"remote":epj(eps.remote),"off":off,"len":bytes.len(),"intact":intact}));
            }
            None => emit(json!({"ev":"tdata","m":self.m,"app":N,"local":Value::Null,"remote":Value::Null,"off":0,"len":bytes.len(),"intact":false})),
        }
        Ok(())
    }
}

#[derive(Clone, Debug)]
struct Raw1 {
    at_us: u64,
    src: ([u8; 4], u16),
    dst: ([u8; 4], u16),
    ctl: u8,
    seq: u32,
    ack: u32,
    len: usize,
}

struct RawApp {
    segs: Vec<Raw1>,
}

fn raw_frame(r: &Raw1) -> Vec<u8> {
    let tl = (40 + r.len) as u16;
    let mut f = vec![0x45, 0, (tl >> 8) as u8, tl as u8, 0, 0, 0x40, 0, 30, 6, 0, 0];
    f.extend(r.src.0);
    f.extend(r.dst.0);
    f.extend(r.src.1.to_be_bytes());
    f.extend(r.dst.1.to_be_bytes());
    f.extend(r.seq.to_be_bytes());
    f.extend((if r.ctl & 16 != 0 { r.ack } else { 0 }).to_be_bytes());
    f.extend([0x50, r.ctl, 0x10, 0x00, 0, 0, 0, 0]);
    f.extend((0..r.len).map(|k| (k % 7) as u8));
    f
}

#[async_trait::async_trait]
impl Protocol for RawApp {
    async fn start(&self, _sd: Shutdown, initialized: Arc<Barrier>, machine: Arc<Machine>) -> Result<(), StartError> {
        initialized.wait().await;
        let sess = machine.protocol::<Pci>().unwrap().open(0);
        let mut segs = self.segs.clone();
        segs.sort_by_key(|s| s.at_us);
        let mut now = 0u64;
        for (k, s) in segs.iter().enumerate() {
            if s.at_us > now {
                tokio::time::sleep(Duration::from_micros(s.at_us - now)).await;
                now = s.at_us;
            }
            let r = sess.send_pci(Message::new(raw_frame(s)), None, TypeId::of::<Ipv4>());
            emit(json!({"ev":"raw","k":k,"src":s.src.0,"sport":s.src.1,"dst":s.dst.0,"dport":s.dst.1,"ctl":s.ctl,"seq":clamp(s.seq),"ack":clamp(s.ack),
                        "len":s.len,"ok":r.is_ok()}));
        }
        Ok(())
    }
    fn demux(&self, _m: Message, _c: Arc<dyn Session>, _ctl: Control, _ma: Arc<Machine>) -> Result<(), DemuxError> {
        Ok(())
    }
}

/// TLC integers are 32 bit signed: sequence numbers are logged modulo 2^30 (the trace specification only
/// compares them for equality with other logged numbers plus small offsets, also taken modulo 2^30)
fn clamp(x: u32) -> i64 {
    (x % (1 << 30)) as i64
}

const ANY: [u8; 4] = [0, 0, 0, 0];
const RAW_IP: [u8; 4] = [10, 0, 0, 200];

pub fn scenario(run: u64, rng: &mut SmallRng) {
    let mtu = [200u16, 1500][rng.gen_range(0..2)];
    let net = NetworkBuilder::new().mtu(mtu).build();
    let nc = rng.gen_range(1..=3usize); // machine 0 is the server, 1..=nc are clients
    let nm = nc + 1;
    let ports = [80u16, 81, 82];
    let own = |k: usize, j: u8| -> [u8; 4] { [10, 0, 0, (10 * k) as u8 + j] };
    // listeners on the server: exact on either of its addresses, or wildcard; a later listen on the same endpoint
    // replaces the earlier one (Tcp::listen inserts)
    let mut listens: Vec<Vec<([u8; 4], u16)>> = vec![vec![]; 2];
    for _ in 0..rng.gen_range(0..=4usize) {
        let addr = [own(0, 1), own(0, 2), ANY, ANY][rng.gen_range(0..4)];
        listens[rng.gen_range(0..2)].push((addr, ports[rng.gen_range(0..3)]));
    }
    let reply_bytes = [0usize, 1, 40, 700][rng.gen_range(0..4)];
    // opens by the clients: to listening or closed ports of the server, to an address nobody owns, twice with the
    // same endpoints
    let mut opens: Vec<Vec<Vec<Open1>>> = vec![vec![vec![]; 2]; nm];
    let no = rng.gen_range(1..=5usize);
    let mut used: Vec<(usize, ([u8; 4], u16), ([u8; 4], u16))> = vec![];
    for id in 0..no {
        let m = rng.gen_range(1..nm);
        let app = rng.gen_range(0..2usize);
        let remote = match rng.gen_range(0..8) {
            0 => ([10, 0, 0, 99], ports[rng.gen_range(0..3)]),
            1 => (own(0, 2), ports[rng.gen_range(0..3)]),
            _ => (own(0, 1), ports[rng.gen_range(0..3)]),
        };
        let mut local = (own(m, 1), 1000 + (m as u16) * 16 + id as u16);
        let mut rem = remote;
        if !used.is_empty() && rng.gen_range(0..5) == 0 {
            // the same endpoints again (possibly by the other application of that machine)
            let u = used[rng.gen_range(0..used.len())];
            if u.0 == m {
                local = u.1;
                rem = u.2;
            }
        }
        used.push((m, local, rem));
        opens[m][app].push(Open1 {
            at_us: [0u64, 0, 500, 2000, 150_000][rng.gen_range(0..5)],
            id: id as u32,
            local,
            remote: rem,
            bytes: [0usize, 1, 50, 900, 3000][rng.gen_range(0..5)],
        });
    }
    // hand-made segments from the tap-only machine
    let mut raws: Vec<Raw1> = vec![];
    for k in 0..rng.gen_range(0..=6usize) {
        let dst_addr = [own(0, 1), own(0, 1), own(0, 2), [10, 0, 0, 98]][rng.gen_range(0..4)];
        let ctl = [2u8, 2, 16, 18, 4, 20, 1, 17, 24, 0, 3, 6][rng.gen_range(0..12)];
        raws.push(Raw1 {
            at_us: [0u64, 300, 1000, 40_000][rng.gen_range(0..4)],
            src: (RAW_IP, 5000 + k as u16),
            dst: (dst_addr, ports[rng.gen_range(0..3)]),
            ctl,
            seq: [0u32, 1, 1000, 0x7fff_ffff, 0xffff_fff0][rng.gen_range(0..5)],
            ack: [0u32, 1, 77, 0xffff_ffff][rng.gen_range(0..4)],
            len: [0usize, 0, 1, 30][rng.gen_range(0..4)],
        });
    }
    let lj: Vec<Value> = (0..2).map(|a| json!(listens[a].iter().map(|b| json!([b.0, b.1])).collect::<Vec<_>>())).collect();
    begin_run(run, json!({"mtu":mtu,"nm":nm,"listens":lj,"reply":reply_bytes}));
    let mut machines: Vec<Arc<Machine>> = (0..nm)
        .map(|m| {
            let table: IpTable<Recipient> = [("0.0.0.0/0", Recipient::new(0, None))].into_iter().collect();
            Machine::new()
                .with(Tcp::new())
                .with(Ipv4::new(table))
                .with(Pci::new([net.clone()]))
                .with(App::<0> { m, listens: if m == 0 { listens[0].clone() } else { vec![] }, opens: opens[m][0].clone(), reply_bytes, controller: m == 0, got: Default::default() })
                .with(App::<1> { m, listens: if m == 0 { listens[1].clone() } else { vec![] }, opens: opens[m][1].clone(), reply_bytes, controller: false, got: Default::default() })
                .arc()
        })
        .collect();
    machines.push(Machine::new().with(Pci::new([net.clone()])).with(RawApp { segs: raws }).arc());
    elvis_core::network::verif::set_frame_hook(Some(Arc::new(move |f: &elvis_core::network::verif::FrameInfo| {
        let b = &f.bytes;
        if f.protocol == TypeId::of::<Ipv4>() && b.len() >= 40 && b[9] == 6 && b[0] == 0x45 {
            let u16a = |i: usize| u16::from_be_bytes([b[i], b[i + 1]]);
            let u32a = |i: usize| u32::from_be_bytes([b[i], b[i + 1], b[i + 2], b[i + 3]]);
            emit(json!({"ev":"twire","src":[b[12],b[13],b[14],b[15]],"dst":[b[16],b[17],b[18],b[19]],"sport":u16a(20),"dport":u16a(22),
                        "seq":clamp(u32a(24)),"ack":clamp(u32a(28)),"ctl":b[33],"len":b.len() - 40,"sender":f.sender}));
        }
        vec![Duration::ZERO]
    })));
    let status = run_paused(async {
        mark_start();
        elvis_core::run_internet_with_timeout(&machines, Duration::from_secs(20)).await
    });
    elvis_core::network::verif::set_frame_hook(None);
    emit(json!({"ev":"end","status":format!("{:?}", status)}));
}

pub fn drive(a: &Args) {
    install_panic_hook();
    let out = a.str("out", "work/tcpl.ndjson");
    *OUT_PATH.lock().unwrap() = Some(out.clone());
    if a.u64("from", 0) == 0 {
        let _ = std::fs::remove_file(&out);
    }
    let seed = a.u64("seed", 1);
    let runs = a.u64("runs", 100);
    for run in a.u64("from", 0)..runs {
        let mut rng = SmallRng::seed_from_u64(seed.wrapping_mul(15485863).wrapping_add(run));
        scenario(run, &mut rng);
        flush_to(&out, true);
    }
    println!("{}", json!({"runs": runs}));
}
