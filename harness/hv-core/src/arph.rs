//! C06: real `Arp` instances on a shared network; a harness application claims addresses and calls
//! `Arp::resolve` (concurrently / repeatedly); the frame hook executes a seeded loss plan over ARP frames
//! and records every ARP frame with its verdict.
use crate::simh::*;
use crate::util::*;
use elvis_core::machine::Machine;
use elvis_core::network::{Latency, NetworkBuilder};
use elvis_core::protocol::{DemuxError, StartError};
use elvis_core::protocols::arp::subnetting::{Ipv4Mask, SubnetInfo};
use elvis_core::protocols::ipv4::Ipv4Address;
use elvis_core::protocols::{AddressPair, Arp, Pci};
use elvis_core::{Control, Message, Protocol, Session, Shutdown};
use rand::rngs::SmallRng;
use rand::{Rng, SeedableRng};
use serde_json::{json, Value};
use std::any::TypeId;
use std::sync::{Arc, Mutex};
use std::time::Duration;
use tokio::sync::Barrier;

#[derive(Clone)]
struct Call {
    at_us: u64,
    rid: u32,
    local: [u8; 4],
    remote: [u8; 4],
}

struct Res {
    m: usize,
    /// configuring a subnet for a local address registers that address with ARP (Arp::set_subnet)
    configured: Option<[u8; 4]>,
    claims: Vec<[u8; 4]>,
    calls: Vec<Call>,
    controller: bool,
    /// (time, address, address of another machine): at that time the machine starts to own the address and makes
    /// itself known by resolving the other address (its request carries its own address pair)
    late_claim: Option<(u64, [u8; 4], [u8; 4])>,
}

#[async_trait::async_trait]
impl Protocol for Res {
    async fn start(&self, shutdown: Shutdown, initialized: Arc<Barrier>, machine: Arc<Machine>) -> Result<(), StartError> {
        let arp = machine.protocol::<Arp>().unwrap();
        let mac = machine.protocol::<Pci>().unwrap().open(0).mac();
        if let Some(c) = self.configured {
            emit(json!({"ev":"claim","m":self.m,"ip":c,"mac":mac}));
        }
        for c in &self.claims {
            arp.listen(Ipv4Address::new(*c));
            emit(json!({"ev":"claim","m":self.m,"ip":c,"mac":mac}));
        }
        initialized.wait().await;
        if let Some((at, ip, other)) = self.late_claim {
            let (m, machine) = (self.m, machine.clone());
            tokio::spawn(async move {
                tokio::time::sleep(Duration::from_micros(at)).await;
                let arp = machine.protocol::<Arp>().unwrap();
                arp.listen(Ipv4Address::new(ip));
                emit(json!({"ev":"claim","m":m,"ip":ip,"mac":mac}));
                let _ = arp.resolve(AddressPair { local: Ipv4Address::new(ip), remote: Ipv4Address::new(other) }, 0, machine.clone()).await;
            });
        }
        let mut calls = self.calls.clone();
        calls.sort_by_key(|c| c.at_us);
        let mut now = 0u64;
        for c in calls {
            if c.at_us > now {
                tokio::time::sleep(Duration::from_micros(c.at_us - now)).await;
                now = c.at_us;
            }
            let (m, machine) = (self.m, machine.clone());
            tokio::spawn(async move {
                let arp = machine.protocol::<Arp>().unwrap();
                emit(json!({"ev":"rstart","m":m,"rid":c.rid,"local":c.local,"remote":c.remote,"mac":mac}));
                let r = arp
                    .resolve(AddressPair { local: Ipv4Address::new(c.local), remote: Ipv4Address::new(c.remote) }, 0, machine.clone())
                    .await;
                emit(json!({"ev":"rend","m":m,"rid":c.rid,"res":r.map(|x| x as i64).unwrap_or(-1)}));
            });
        }
        if self.controller {
            tokio::time::sleep(Duration::from_secs(12)).await;
            shutdown.shut_down();
        }
        Ok(())
    }
    fn demux(&self, _m: Message, _c: Arc<dyn Session>, _ctl: Control, _ma: Arc<Machine>) -> Result<(), DemuxError> {
        Ok(())
    }
}

pub fn scenario(run: u64, rng: &mut SmallRng) {
    let lat = [0u64, 1000, 5000][rng.gen_range(0..3)];
    let mut nb = NetworkBuilder::new();
    if lat > 0 {
        nb = nb.latency(Latency::constant(Duration::from_micros(lat)));
    }
    let net = nb.build();
    let nm = rng.gen_range(2..=6usize);
    let loss = [0u32, 0, 30, 60, 85][rng.gen_range(0..5)];
    // in a fifth of the runs the plan is exact instead of random: of the requests that one machine sends for one
    // address only the k-th gets through (k = 1..10, often the last of the retry budget; 11 = none); replies pass
    let only_kth: u32 = if rng.gen_range(0..5) == 0 { [1u32, 2, 9, 10, 10, 10, 11][rng.gen_range(0..7)] } else { 0 };
    // machine k owns 10.k.0.1 and (sometimes) 10.k.0.2; subnets are byte aligned
    // (addresses differ in bits that masks of every length cut through)
    let addr = |k: usize, j: u8| -> [u8; 4] { [10, (k * 40) as u8, (k * 16) as u8, j] };
    let mut claims: Vec<Vec<[u8; 4]>> = vec![];
    for k in 0..nm {
        let mut c = vec![addr(k, 1)];
        if rng.gen() {
            c.push(addr(k, 2));
        }
        if rng.gen_range(0..5) == 0 {
            c.clear(); // claims nothing (its own address is still claimed when it resolves)
        }
        claims.push(c);
    }
    let mut subnets: Vec<Option<(u32, [u8; 4])>> = vec![];
    for _k in 0..nm {
        subnets.push(if rng.gen_range(0..3) == 0 {
            let mask = [0u32, 8, 16, 24, 32, 12, 13, 20, 21, 27, 30, 9][rng.gen_range(0..12)];
            let gw = if rng.gen_range(0..4) == 0 { [10, 77, 0, 1] } else { addr(rng.gen_range(0..nm), 1) };
            Some((mask, gw))
        } else {
            None
        });
    }
    let mut calls: Vec<Vec<Call>> = vec![vec![]; nm];
    let nc = rng.gen_range(1..=6u32);
    for rid in 0..nc {
        let m = rng.gen_range(0..nm);
        let remote = match rng.gen_range(0..8) {
            0 => [10, 99, 9, 9],
            1 => addr(m, 1),
            2 => addr(rng.gen_range(0..nm), 2),
            _ => addr(rng.gen_range(0..nm), 1),
        };
        calls[m].push(Call { at_us: [0u64, 0, 0, 150_000, 1_900_000, 2_100_000, 500_000][rng.gen_range(0..7)], rid, local: addr(m, 1), remote });
    }
    // on a loss-free network, sometimes: an address that nobody owns at first is resolved (and fails), its owner
    // appears later and announces itself, and the address is resolved again
    let mut late: Vec<Option<(u64, [u8; 4], [u8; 4])>> = vec![None; nm];
    if loss == 0 && only_kth == 0 && nm >= 3 && rng.gen_range(0..3) == 0 {
        let (owner, resolver, other) = (0usize, 1usize, 2usize);
        let ip = [10, 200, 7, 7];
        // (it asks for an address nobody has, so that the request certainly goes out: its sender fields announce the owner)
        let _ = other;
        late[owner] = Some((2_600_000, ip, [10, 200, 9, 9]));
        let rid0 = calls.iter().map(|c| c.len()).sum::<usize>() as u32;
        calls[resolver].push(Call { at_us: 0, rid: 100 + rid0, local: addr(resolver, 1), remote: ip });
        calls[resolver].push(Call { at_us: 4_000_000, rid: 101 + rid0, local: addr(resolver, 1), remote: ip });
        // (without a subnet configuration, so that the address is resolved itself)
        subnets[resolver] = None;
    }
    let sj: Vec<Value> = subnets.iter().map(|s| match s { Some((m, g)) => json!({"set":true,"mask":m,"gw":g}), None => json!({"set":false,"mask":0,"gw":[0,0,0,0]}) }).enumerate().map(|(k, mut v)| { v["addr"] = json!(addr(k, 1)); v }).collect();
    begin_run(run, json!({"nm":nm,"lat":lat,"loss":loss,"only_kth":only_kth,"subnets":sj}));
    let machines: Vec<Arc<Machine>> = (0..nm)
        .map(|k| {
            let mut arp = Arp::new();
            if let Some((mask, gw)) = subnets[k] {
                arp = arp.preconfig_subnet(Ipv4Address::new(addr(k, 1)), SubnetInfo::new(Ipv4Mask::from_bitcount(mask), Ipv4Address::new(gw)));
            }
            Machine::new()
                .with(arp)
                .with(Pci::new([net.clone()]))
                .with(Res { m: k, configured: subnets[k].map(|_| addr(k, 1)), claims: claims[k].clone(), calls: calls[k].clone(), controller: k == 0, late_claim: late[k] })
                .arc()
        })
        .collect();
    let plan = Mutex::new(SmallRng::seed_from_u64(rng.gen()));
    let counts: Mutex<std::collections::HashMap<(u64, [u8; 4]), u32>> = Default::default();
    elvis_core::network::verif::set_frame_hook(Some(Arc::new(move |f: &elvis_core::network::verif::FrameInfo| {
        if f.protocol != TypeId::of::<Arp>() || f.bytes.len() < 28 {
            return vec![Duration::ZERO];
        }
        let b = &f.bytes;
        let dropped = if only_kth > 0 {
            if b[7] == 1 {
                let mut c = counts.lock().unwrap();
                let n = c.entry((f.sender, [b[24], b[25], b[26], b[27]])).or_insert(0);
                *n += 1;
                *n != only_kth
            } else {
                false
            }
        } else {
            plan.lock().unwrap().gen_range(0..100) < loss
        };
        emit(json!({"ev":"arpwire","oper":b[7],"smac":f.sender,"sip":[b[14],b[15],b[16],b[17]],"tip":[b[24],b[25],b[26],b[27]],
                    "dst":f.destination.map(|d| if d > 1000 { -2 } else { d as i64 }).unwrap_or(-1),"delivered":!dropped}));
        if dropped {
            vec![]
        } else {
            vec![Duration::ZERO]
        }
    })));
    let status = run_paused(async {
        mark_start();
        elvis_core::run_internet_with_timeout(&machines, Duration::from_secs(20)).await
    });
    elvis_core::network::verif::set_frame_hook(None);
    emit(json!({"ev":"end","status":format!("{:?}", status)}));
}

pub fn drive(a: &Args) {
    install_panic_hook();
    let out = a.str("out", "work/arp.ndjson");
    *OUT_PATH.lock().unwrap() = Some(out.clone());
    if a.u64("from", 0) == 0 {
        let _ = std::fs::remove_file(&out);
    }
    let seed = a.u64("seed", 1);
    let runs = a.u64("runs", 100);
    for run in a.u64("from", 0)..runs {
        let mut rng = SmallRng::seed_from_u64(seed.wrapping_mul(15485863).wrapping_add(run));
        scenario(run, &mut rng);
        flush_to(&out, true);
    }
    println!("{}", json!({"runs": runs}));
}
