//! C02: the complete stack (SocketAPI, Tcp/Udp, Ipv4, Arp, Pci, Network) between harness client and server
//! applications.  Stream sockets: the client writes a position-coded stream in scripted pieces, the server
//! reads with scripted `recv(n)` sizes.  Datagram sockets: numbered datagrams.  The frame hook applies a
//! seeded jitter / drop (bounded consecutive loss) / duplicate plan.  Both tokio runtime flavours.
use crate::simh::*;
use crate::util::*;
use elvis_core::machine::Machine;
use elvis_core::network::NetworkBuilder;
use elvis_core::protocol::{DemuxError, StartError};
use elvis_core::protocols::ipv4::{Ipv4, Ipv4Address, Recipient};
use elvis_core::protocols::socket_api::socket::{ProtocolFamily, SocketType};
use elvis_core::protocols::{Arp, Endpoint, Pci, SocketAPI, Tcp, Udp};
use elvis_core::{Control, IpTable, Message, Protocol, Session, Shutdown};
use rand::rngs::SmallRng;
use rand::{Rng, SeedableRng};
use serde_json::json;
use std::any::TypeId;
use std::sync::atomic::{AtomicU32, Ordering};
use std::sync::{Arc, Mutex};
use std::time::Duration;
use tokio::sync::Barrier;

/// the greeting of the server is the same on every connection (it does not know yet who connected)
fn gbyte(k: usize) -> u8 {
    sbyte(7, k + 3)
}

fn sbyte(conn: usize, k: usize) -> u8 {
    let x = (k as u32).wrapping_mul(2654435761).wrapping_add(conn as u32 * 0x85eb);
    ((x >> 11) ^ (x >> 3)) as u8
}

#[derive(Clone)]
struct ClientPlan {
    c: usize,
    stream: bool,
    writes: Vec<(u64, usize)>, // (pause before the write in microseconds, length)
    /// the server speaks first: the client reads this many greeting bytes before it writes anything
    greet: usize,
}

struct Client {
    plan: ClientPlan,
}

struct Server {
    stream: bool,
    nclients: usize,
    reads: Vec<usize>, // recv sizes, cycled
    totals: Vec<usize>, // bytes each client will write (by client index)
    slow_us: u64,
    first_read_delay_us: u64,
    watchdog_s: u64,
    done: Arc<AtomicU32>,
    /// bytes the server writes on every accepted connection before it reads (0 = it only reads)
    greet: usize,
}

/// C14: a machine that puts frames with undecodable headers on the wire between the legitimate traffic
struct Attacker {
    frames: Vec<(u64, Vec<u8>, bool)>, // (time, bytes, is_arp)
}

#[async_trait::async_trait]
impl Protocol for Attacker {
    async fn start(&self, _sd: Shutdown, initialized: Arc<Barrier>, machine: Arc<Machine>) -> Result<(), StartError> {
        initialized.wait().await;
        let sess = machine.protocol::<Pci>().unwrap().open(0);
        let mut frames = self.frames.clone();
        frames.sort_by_key(|f| f.0);
        let mut now = 0u64;
        for (at, bytes, is_arp) in frames {
            if at > now {
                tokio::time::sleep(Duration::from_micros(at - now)).await;
                now = at;
            }
            let n = bytes.len();
            let r = sess.send_pci(Message::new(bytes), None, if is_arp { TypeId::of::<Arp>() } else { TypeId::of::<Ipv4>() });
            emit(json!({"ev":"badframe","len":n,"arp":is_arp,"ok":r.is_ok()}));
        }
        Ok(())
    }
    fn demux(&self, _m: Message, _c: Arc<dyn Session>, _ctl: Control, _ma: Arc<Machine>) -> Result<(), DemuxError> {
        Ok(())
    }
}

/// frames whose headers fail to decode at the PCI / IPv4 / UDP / TCP / ARP layer
fn bad_frame(rng: &mut SmallRng, client_ip: [u8; 4], stream: bool) -> (Vec<u8>, bool) {
    let ip = |proto: u8, plen: usize, src: [u8; 4]| -> Vec<u8> {
        let tl = (20 + plen) as u16;
        let mut h = vec![0x45, 0, (tl >> 8) as u8, tl as u8, 0, 0, 0x40, 0, 30, proto, 0, 0];
        h.extend(src);
        h.extend(SERVER_IP);
        h
    };
    let src = if rng.gen() { client_ip } else { [10, 9, 2, 1] };
    let tcp_ports = [0xc0u8, 0x00, (PORT >> 8) as u8, PORT as u8]; // first ephemeral port 49152 -> server port
    match rng.gen_range(0..12) {
        0 => { let mut f = ip(17, 8, src); f[0] = 0x55; f.extend([0u8; 8]); (f, false) }              // IP version 5
        1 => { let mut f = ip(17, 8, src); f[0] = 0x46; f.extend([0u8; 12]); (f, false) }             // IHL 6 (options)
        2 => { let mut f = ip(6, 20, src); f[1] = 0x01; f.extend([0u8; 20]); (f, false) }             // reserved TOS bit
        3 => { let mut f = ip(6, 20, src); f[6] = 0x80; f.extend([0u8; 20]); (f, false) }             // reserved flag
        4 => (ip(6, 20, src)[..rng.gen_range(0..20)].to_vec(), false),                                  // truncated IPv4 header
        5 => { let mut f = ip(17, 12, src); f.extend([0xc0, 0, (PORT >> 8) as u8, PORT as u8, 0, 99, 0, 0, 1, 2, 3, 4]); (f, false) } // UDP length mismatch
        6 => { let mut f = ip(17, 5, src); f.extend([0xc0, 0, 2, 188, 0]); (f, false) }               // truncated UDP header
        7 => { let mut f = ip(6, 24, src); f.extend(tcp_ports); f.extend([0, 0, 0, 1, 0, 0, 0, 1, 0x60, if stream { 0x04 } else { 0x10 }, 0xff, 0xff, 0, 0, 0, 0, 1, 2, 3, 4]); (f, false) } // TCP data offset 6 (RST bit set: must be ignored)
        8 => { let mut f = ip(6, 11, src); f.extend(tcp_ports); f.extend([0u8; 7]); (f, false) }      // truncated TCP header
        9 => { let mut f = vec![0, 1, 8, 0, 6, 4, 0, 3]; f.extend([0u8; 20]); (f, true) }              // ARP operation 3
        10 => (vec![0, 1, 8, 0, 6, 4, 0, 1, 0, 0][..rng.gen_range(0..10)].to_vec(), true),              // truncated ARP
        _ => ((0..rng.gen_range(0..40)).map(|_| rng.gen()).collect(), rng.gen()),                        // random bytes
    }
}

const PORT: u16 = 700;
const SERVER_IP: [u8; 4] = [10, 9, 0, 1];

#[async_trait::async_trait]
impl Protocol for Client {
    async fn start(&self, _sd: Shutdown, initialized: Arc<Barrier>, machine: Arc<Machine>) -> Result<(), StartError> {
        let api = machine.protocol::<SocketAPI>().unwrap();
        let ty = if self.plan.stream { SocketType::Stream } else { SocketType::Datagram };
        let mut sock = api.new_socket(ProtocolFamily::INET, ty, machine.clone()).await.unwrap();
        initialized.wait().await;
        let c = self.plan.c;
        if sock.connect(Endpoint::new(Ipv4Address::new(SERVER_IP), PORT)).await.is_err() {
            emit(json!({"ev":"connect_err","c":c}));
            return Ok(());
        }
        emit(json!({"ev":"connected","c":c}));
        if self.plan.greet > 0 {
            let mut got = 0usize;
            while got < self.plan.greet {
                let n_req = [1000usize, 7, 100000][(c + got) % 3];
                let data = match sock.recv(n_req).await {
                    Ok(d) => d,
                    Err(_) => break,
                };
                let ok = data.iter().enumerate().take_while(|(i, b)| **b == gbyte(got + i)).count();
                emit(json!({"ev":"cread","c":c,"n":n_req,"off":got,"len":data.len(),"ok":ok}));
                if data.is_empty() {
                    break;
                }
                got += data.len();
            }
        }
        let mut off = 0usize;
        for (k, (pause, len)) in self.plan.writes.iter().enumerate() {
            if *pause > 0 {
                tokio::time::sleep(Duration::from_micros(*pause)).await;
            }
            // a datagram carries its number in the first two bytes
            let bytes: Vec<u8> = if self.plan.stream {
                (0..*len).map(|i| sbyte(c, off + i)).collect()
            } else {
                (0..*len).map(|i| if i == 0 { c as u8 } else if i == 1 { k as u8 } else { sbyte(c, k * 7 + i) }).collect()
            };
            emit(json!({"ev":"write","c":c,"k":k,"off":off,"len":len}));
            let r = sock.send(bytes);
            if r.is_err() {
                emit(json!({"ev":"write_err","c":c,"k":k}));
            }
            off += len;
        }
        // keep the socket alive until the run ends
        std::future::pending::<()>().await;
        Ok(())
    }
    fn demux(&self, _m: Message, _c: Arc<dyn Session>, _ctl: Control, _ma: Arc<Machine>) -> Result<(), DemuxError> {
        Ok(())
    }
}

#[async_trait::async_trait]
impl Protocol for Server {
    async fn start(&self, shutdown: Shutdown, initialized: Arc<Barrier>, machine: Arc<Machine>) -> Result<(), StartError> {
        let api = machine.protocol::<SocketAPI>().unwrap();
        let ty = if self.stream { SocketType::Stream } else { SocketType::Datagram };
        let mut lsock = api.new_socket(ProtocolFamily::INET, ty, machine.clone()).await.unwrap();
        lsock.bind(Endpoint::new(Ipv4Address::CURRENT_NETWORK, PORT)).unwrap();
        lsock.listen(self.nclients.max(1)).unwrap();
        initialized.wait().await;
        let watchdog = shutdown.clone();
        let wd = self.watchdog_s;
        tokio::spawn(async move {
            tokio::time::sleep(Duration::from_secs(wd)).await;
            watchdog.shut_down();
        });
        for _ in 0..self.nclients {
            let mut sock = match lsock.accept().await {
                Ok(s) => s,
                Err(_) => break,
            };
            if self.greet > 0 {
                let bytes: Vec<u8> = (0..self.greet).map(gbyte).collect();
                if sock.send(bytes).is_err() {
                    emit(json!({"ev":"greet_err"}));
                }
            }
            let (stream, reads, totals, slow, done, n, sd) =
                (self.stream, self.reads.clone(), self.totals.clone(), self.slow_us, self.done.clone(), self.nclients as u32, shutdown.clone());
            let first_delay = self.first_read_delay_us;
            tokio::spawn(async move {
                if first_delay > 0 {
                    tokio::time::sleep(Duration::from_micros(first_delay)).await;
                }
                let mut conn: i64 = -1;
                let mut got = 0usize;
                let mut k = 0usize;
                loop {
                    if slow > 0 {
                        tokio::time::sleep(Duration::from_micros(slow)).await;
                    }
                    let n_req = reads[k % reads.len()];
                    k += 1;
                    if stream {
                        // a scripted size of 0 stands for a whole-message read (recv_msg / TcpStream::read) mixed into the
                        // byte-budget reads of the same socket
                        let data = if n_req == 0 {
                            match sock.recv_msg().await {
                                Ok(m) => m.to_vec(),
                                Err(_) => break,
                            }
                        } else {
                            match sock.recv(n_req).await {
                                Ok(d) => d,
                                Err(_) => break,
                            }
                        };
                        if conn < 0 {
                            // the first bytes identify the stream: find the client whose stream starts like this
                            conn = (0..totals.len()).find(|&c| data.iter().enumerate().all(|(i, b)| *b == sbyte(c, i))).map(|x| x as i64).unwrap_or(-2);
                        }
                        let ok = if conn >= 0 { data.iter().enumerate().take_while(|(i, b)| **b == sbyte(conn as usize, got + i)).count() } else { 0 };
                        emit(json!({"ev":"read","c":conn,"n":if n_req == 0 { -1 } else { n_req as i64 },"off":got,"len":data.len(),"ok":ok}));
                        got += data.len();
                        if conn >= 0 && got >= totals[conn as usize] {
                            break;
                        }
                    } else {
                        let m = match sock.recv_msg().await {
                            Ok(m) => m.to_vec(),
                            Err(_) => break,
                        };
                        let (c, kk) = if m.len() >= 2 { (m[0] as i64, m[1] as i64) } else { (-1, -1) };
                        let intact = m.len() >= 2 && m.iter().enumerate().all(|(i, b)| i < 2 || *b == sbyte(c as usize, kk as usize * 7 + i));
                        if conn < 0 {
                            conn = c;
                        }
                        emit(json!({"ev":"dgram","c":conn,"from":c,"k":kk,"len":m.len(),"intact":intact}));
                    }
                }
                emit(json!({"ev":"reader_done","c":conn,"got":got}));
                if stream && done.fetch_add(1, Ordering::SeqCst) + 1 == n {
                    sd.shut_down();
                }
            });
        }
        if !self.stream {
            tokio::time::sleep(Duration::from_secs(if self.watchdog_s > 10 { 5 } else { 2 })).await;
            shutdown.shut_down();
        }
        std::future::pending::<()>().await;
        Ok(())
    }
    fn demux(&self, _m: Message, _c: Arc<dyn Session>, _ctl: Control, _ma: Arc<Machine>) -> Result<(), DemuxError> {
        Ok(())
    }
}

pub fn scenario(run: u64, rng: &mut SmallRng, flavour: usize, backlog: bool, attack: bool) {
    let stream = backlog || rng.gen_range(0..4) != 0;
    let mtu: u16 = [100u16, 120, 576, 1500, 1500][rng.gen_range(0..5)];
    let net = NetworkBuilder::new().mtu(mtu).build();
    let nclients = if backlog { 1 } else { [1usize, 1, 2, 3, 5][rng.gen_range(0..5)] };
    let loss = if backlog { 0 } else if stream { [0u32, 0, 10, 25][rng.gen_range(0..4)] } else { [0u32, 20][rng.gen_range(0..2)] };
    let dup = [0u32, 0, 10][rng.gen_range(0..3)];
    let reads: Vec<usize> = (0..rng.gen_range(1..4)).map(|_| [1usize, 2, 4, 7, 64, 1000, 100000, 0, 0][rng.gen_range(0..9)]).collect();
    let slow_us = [0u64, 0, 0, 3000][rng.gen_range(0..4)];
    // (backlog scenario: the reader starts only after more than 255 one-byte messages have queued up)
    let (reads, slow_us) = if backlog { (vec![1000usize], 0) } else { (reads, slow_us) };
    // small reads (and a slow reader) keep the streams short, so that a run ends well within its watchdog
    let small = reads.iter().filter(|r| **r > 0).min().map_or(false, |m| *m < 64);
    let cap = if small && slow_us > 0 { 40 } else if small { 400 } else if slow_us > 0 { 3000 } else { usize::MAX };
    let mut plans = vec![];
    for c in 0..nclients {
        let nw = if backlog { 300 } else { [1usize, 2, 3, 8, 20, 40][rng.gen_range(0..6)] };
        let spaced = backlog || rng.gen_range(0..3) == 0;
        let mut writes = vec![];
        for _ in 0..nw {
            let len = if stream {
                match rng.gen_range(0..6) {
                    0 => 1,
                    1 => rng.gen_range(1..50),
                    2 => rng.gen_range(50..2000),
                    3 => (mtu as usize).saturating_sub(50).max(1),
                    4 => rng.gen_range(2000..20000),
                    _ => rng.gen_range(1..10),
                }
            } else {
                rng.gen_range(2..=(mtu as usize - 28))
            };
            let len = if backlog { 1 } else if stream { len.min(cap) } else { len };
            writes.push((if backlog { 6000 } else if spaced { [0u64, 1000, 6000, 20000][rng.gen_range(0..4)] } else { 0 }, len));
        }
        plans.push(ClientPlan { c, stream, writes, greet: 0 });
    }
    // every third stream scenario: the server speaks first (a greeting on every accepted connection, read by the client
    // before it writes anything)
    let greet = if stream && !backlog && rng.gen_range(0..3) == 0 { [1usize, 10, 300, 3000][rng.gen_range(0..4)] } else { 0 };
    for p in plans.iter_mut() {
        p.greet = greet;
    }
    let totals: Vec<usize> = plans.iter().map(|p| p.writes.iter().map(|w| w.1).sum()).collect();
    begin_run(run, json!({"stream":stream,"mtu":mtu,"nclients":nclients,"loss":loss,"dup":dup,"flavour":flavour,"backlog":backlog,"totals":totals,"greet":greet,
                          "nwrites": plans.iter().map(|p| p.writes.len()).collect::<Vec<_>>()}));
    let table = || -> IpTable<Recipient> { [("0.0.0.0/0", Recipient::new(0, None))].into_iter().collect() };
    let done = Arc::new(AtomicU32::new(0));
    let mut machines = vec![Machine::new()
        .with(Udp::new())
        .with(Tcp::new())
        .with(Ipv4::new(table()))
        .with(Arp::new())
        .with(Pci::new([net.clone()]))
        .with(SocketAPI::new(Some(Ipv4Address::new(SERVER_IP))))
        .with(Server { stream, nclients, reads, totals: totals.clone(), slow_us, first_read_delay_us: if backlog { 3_000_000 } else { 0 }, watchdog_s: if flavour == 0 { 40 } else { 8 }, done, greet })
        .arc()];
    for p in &plans {
        machines.push(
            Machine::new()
                .with(Udp::new())
                .with(Tcp::new())
                .with(Ipv4::new(table()))
                .with(Arp::new())
                .with(Pci::new([net.clone()]))
                .with(SocketAPI::new(Some(Ipv4Address::new([10, 9, 1, 10 + p.c as u8]))))
                .with(Client { plan: p.clone() })
                .arc(),
        );
    }
    if attack {
        let frames = (0..rng.gen_range(3..30)).map(|_| {
            let (b, arp) = bad_frame(rng, [10, 9, 1, 10], stream);
            ([0u64, 0, 500, 2000, 7000, 30000, 120000][rng.gen_range(0..7)], b, arp)
        }).collect();
        machines.push(Machine::new().with(Pci::new([net.clone()])).with(Attacker { frames }).arc());
    }
    // loss with at most 3 consecutive drops per sender, duplicates, jitter
    let plan = Mutex::new((SmallRng::seed_from_u64(rng.gen()), std::collections::HashMap::<u64, u32>::new()));
    elvis_core::network::verif::set_frame_hook(Some(Arc::new(move |f: &elvis_core::network::verif::FrameInfo| {
        if f.protocol != TypeId::of::<Ipv4>() {
            return vec![Duration::ZERO];
        }
        let mut g = plan.lock().unwrap();
        let consecutive = *g.1.get(&f.sender).unwrap_or(&0);
        let jitter = Duration::from_micros([0u64, 0, 200, 1500][g.0.gen_range(0..4)]);
        if g.0.gen_range(0..100) < loss && consecutive < 3 {
            g.1.insert(f.sender, consecutive + 1);
            return vec![];
        }
        g.1.insert(f.sender, 0);
        if g.0.gen_range(0..100) < dup {
            vec![jitter, jitter + Duration::from_micros(700)]
        } else {
            vec![jitter]
        }
    })));
    let body = async {
        mark_start();
        elvis_core::run_internet_with_timeout(&machines, Duration::from_secs(60)).await
    };
    let _ = if flavour == 0 { run_paused(body) } else { run_multi(flavour, body) };
    elvis_core::network::verif::set_frame_hook(None);
    emit(json!({"ev":"end"}));
}

pub fn drive(a: &Args) {
    install_panic_hook();
    let out = a.str("out", "work/sock.ndjson");
    *OUT_PATH.lock().unwrap() = Some(out.clone());
    if a.u64("from", 0) == 0 {
        let _ = std::fs::remove_file(&out);
    }
    let seed = a.u64("seed", 1);
    let runs = a.u64("runs", 100);
    let flavour = a.u64("workers", 0) as usize; // 0 = current_thread with paused clock, n = multi_thread with n workers
    for run in a.u64("from", 0)..runs {
        let mut rng = SmallRng::seed_from_u64(seed.wrapping_mul(67867967).wrapping_add(run));
        scenario(run, &mut rng, flavour, a.flag("backlog"), a.flag("attack"));
        flush_to(&out, true);
    }
    println!("{}", json!({"runs": runs}));
}
