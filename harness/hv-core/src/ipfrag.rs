//! C10 / C11: the real `fragment()` and `Reassembly` driven densely / randomly; one NDJSON event per call.
use crate::util::*;
use elvis_core::protocols::ipv4::fragmentation::{fragment, Fragments};
use elvis_core::protocols::ipv4::ipv4_parsing::{ControlFlags, Ipv4Header};
use elvis_core::protocols::ipv4::verif::{BufId, Epoch, Reassembly, ReceivePacketResult};
use elvis_core::protocols::ipv4::Ipv4Address;
use elvis_core::Message;
use rand::rngs::SmallRng;
use rand::seq::SliceRandom;
use rand::{Rng, SeedableRng};
use serde_json::{json, Value};
use std::panic::{catch_unwind, AssertUnwindSafe};

/// byte at position q of datagram `d`
fn code(d: u32, q: usize) -> u8 {
    let x = (q as u32).wrapping_mul(2246822519).wrapping_add(d.wrapping_mul(374761393));
    ((x >> 15) ^ (x >> 7)) as u8
}

fn header(d: u32, fo: u16, len: usize, mf: bool, df: bool, rng_fields: (u8, u16, u8, u8, [u8; 4], [u8; 4])) -> Ipv4Header {
    let (tos, id, ttl, proto, src, dst) = rng_fields;
    let _ = d;
    Ipv4Header {
        ihl: 5,
        type_of_service: (tos & 0xfc).into(),
        total_length: (len + 20) as u16,
        identification: id,
        fragment_offset: fo,
        flags: ControlFlags::new(!df, !mf),
        time_to_live: ttl,
        protocol: proto,
        checksum: 0,
        source: Ipv4Address::new(src),
        destination: Ipv4Address::new(dst),
    }
}

fn same_but(a: &Ipv4Header, b: &Ipv4Header) -> bool {
    a.ihl == b.ihl
        && a.type_of_service == b.type_of_service
        && a.identification == b.identification
        && a.time_to_live == b.time_to_live
        && a.protocol == b.protocol
        && a.source == b.source
        && a.destination == b.destination
        && a.flags.may_fragment() == b.flags.may_fragment()
}

/// one original datagram through a chain of MTUs
fn frag_case(i: u64, d: u32, fo0: u16, len: usize, mf0: bool, df: bool, mtus: &[u16], f: (u8, u16, u8, u8, [u8; 4], [u8; 4])) -> Value {
    let h0 = header(d, fo0, len, mf0, df, f);
    let body: Vec<u8> = (0..len).map(|k| code(d, fo0 as usize * 8 + k)).collect();
    let mut cur: Vec<(Ipv4Header, Message)> = vec![(h0, Message::new(body))];
    let mut discard = false;
    let mut kinds: Vec<&str> = vec![];
    let r = catch_unwind(AssertUnwindSafe(|| {
        for (lvl, &mtu) in mtus.iter().enumerate() {
            let mut next = vec![];
            for (h, b) in cur.drain(..) {
                match fragment(h, b, mtu) {
                    Fragments::DontFragment(x) => {
                        if lvl == 0 {
                            kinds.push("DontFragment");
                        }
                        next.push(x)
                    }
                    Fragments::Discard => {
                        if lvl == 0 {
                            kinds.push("Discard");
                        }
                        discard = true
                    }
                    Fragments::Fragmented(v) => {
                        if lvl == 0 {
                            kinds.push("Fragmented");
                        }
                        next.extend(v)
                    }
                }
            }
            cur = next;
        }
    }));
    if r.is_err() {
        let (msg, loc) = crate::tcbh::take_panic();
        return json!({"ev":"frag","i":i,"panic":true,"msg":msg,"loc":loc,"L":len,"fo":fo0,"mf":mf0,"df":df,"mtus":mtus,
                      "pieces":[],"discard":false,"kind":"Panic"});
    }
    let pieces: Vec<Value> = cur
        .iter()
        .map(|(h, b)| {
            let plen = b.len();
            let payok = b
                .iter()
                .enumerate()
                .all(|(k, x)| x == code(d, h.fragment_offset as usize * 8 + k));
            let hdrok = same_but(h, &h0) && h.total_length as usize == plen + 20;
            json!([h.fragment_offset, plen, !h.flags.is_last_fragment(), hdrok, payok])
        })
        .collect();
    json!({"ev":"frag","i":i,"panic":false,"L":len,"fo":fo0,"mf":mf0,"df":df,"mtus":mtus,
           "pieces":pieces,"discard":discard,"kind":kinds.first().copied().unwrap_or("None")})
}

fn rnd_fields(rng: &mut SmallRng) -> (u8, u16, u8, u8, [u8; 4], [u8; 4]) {
    let ext = |rng: &mut SmallRng| -> u8 { [0u8, 1, 127, 128, 254, 255][rng.gen_range(0..6)] };
    (
        rng.gen(),
        if rng.gen() { rng.gen() } else { [0, 1, 0xffff, 0x8000][rng.gen_range(0..4)] },
        if rng.gen() { rng.gen() } else { ext(rng) },
        if rng.gen() { rng.gen() } else { ext(rng) },
        [ext(rng), rng.gen(), rng.gen(), ext(rng)],
        [rng.gen(), ext(rng), ext(rng), rng.gen()],
    )
}

pub fn frag_drive(a: &Args) {
    crate::tcbh::install_quiet_panic_hook();
    let mut rng = SmallRng::seed_from_u64(a.u64("seed", 1));
    let dense = a.u64("dense-pct", 5); // percentage of the dense grid L 0..600 x MTU 68..130 that is executed
    let big = a.u64("big", 20);
    let mut out = NdJson::create(&a.str("out", "work/frag.ndjson"));
    let mut i = 0u64;
    let mut distinct = std::collections::BTreeSet::new();
    for len in 0..=600usize {
        for mtu in 68..=130u16 {
            if rng.gen_range(0..100) >= dense {
                continue;
            }
            let df = rng.gen_range(0..5) == 0;
            let mf0 = rng.gen_range(0..4) == 0;
            let fo0: u16 = if mf0 || rng.gen_range(0..3) == 0 { rng.gen_range(0..100) } else { 0 };
            // an original that is itself a non-final fragment carries a multiple of 8 bytes
            let len = if mf0 { len / 8 * 8 } else { len };
            let mut mtus = vec![mtu];
            let extra = rng.gen_range(0..3);
            for _ in 0..extra {
                let last = *mtus.last().unwrap();
                if last > 68 {
                    mtus.push(rng.gen_range(68..=last));
                }
            }
            mtus.sort_by(|x, y| y.cmp(x));
            let f = rnd_fields(&mut rng);
            let ev = frag_case(i, i as u32, fo0, len, mf0, df, &mtus, f);
            distinct.insert((len.min(200), (mtu - 20) % 8, mtus.len(), df, mf0, ev["pieces"].as_array().unwrap().len().min(6)));
            out.put(&ev);
            i += 1;
        }
    }
    for _ in 0..big {
        let len = [65515usize, 65514, 65508, 30000, 1480, 1481, 9000][rng.gen_range(0..7)];
        let m1: u16 = [65535u16, 1500, 576, 68, 69, 75, 76, 9000][rng.gen_range(0..8)];
        let mut mtus = vec![m1];
        if rng.gen() && m1 > 68 {
            mtus.push([68u16, 69, 100, 576][rng.gen_range(0..4)].min(m1));
        }
        let f = rnd_fields(&mut rng);
        let ev = frag_case(i, i as u32, 0, len, false, rng.gen_range(0..6) == 0, &mtus, f);
        distinct.insert((len.min(200), (m1 - 20) % 8, mtus.len(), false, false, 7));
        out.put(&ev);
        i += 1;
    }
    let lines = out.lines;
    out.finish();
    println!("{}", json!({"events": lines, "distinct": distinct.len()}));
}

// ------------------------------------------------------------------------------------ reassembly

struct Dgram {
    key: (u8, u8, u8, u16), // src low byte, dst low byte, protocol, identification
    len: usize,
    ttl: u8,
    pieces: Vec<(u16, usize, bool)>,
}

fn split(len: usize, nfb: usize) -> Vec<(u16, usize, bool)> {
    let mut v = vec![];
    let mut off = 0usize;
    while len - off > nfb * 8 {
        v.push(((off / 8) as u16, nfb * 8, true));
        off += nfb * 8;
    }
    v.push(((off / 8) as u16, len - off, false));
    v
}

pub fn reasm_run(run: u64, rng: &mut SmallRng, out: &mut NdJson, dups: bool, distinct: &mut std::collections::BTreeSet<(usize, usize, bool, bool)>) {
    let nd = rng.gen_range(1..=4usize);
    let mut ds: Vec<Dgram> = vec![];
    let base = (rng.gen_range(1..250u8), rng.gen_range(1..250u8), [6u8, 17, 253][rng.gen_range(0..3)], rng.gen::<u16>());
    for k in 0..nd {
        // keys differ in exactly one of the four fields from the first datagram
        let mut key = base;
        match k {
            0 => {}
            1 => key.0 = key.0.wrapping_add(1),
            2 => key.3 = key.3.wrapping_add(1),
            _ => {
                if rng.gen() {
                    key.1 = key.1.wrapping_add(1)
                } else {
                    key.2 = key.2.wrapping_add(1)
                }
            }
        }
        let len = match rng.gen_range(0..5) {
            0 => rng.gen_range(1..=48),
            1 => rng.gen_range(49..=400),
            2 => 48 * rng.gen_range(1..8usize),
            3 => rng.gen_range(400..8000),
            _ => rng.gen_range(1..200),
        };
        let nfb = [6usize, 6, 12, 18, 1, 60][rng.gen_range(0..6)];
        let mut pieces = split(len, nfb);
        if dups && rng.gen_range(0..2) == 0 {
            // the same datagram also arrives through another chain: ranges overlap
            let nfb2 = [6usize, 12, 3, 18][rng.gen_range(0..4)];
            pieces.extend(split(len, nfb2));
        }
        if rng.gen_range(0..4) == 0 {
            // the same datagram also arrives whole (another path did not fragment it): RFC 791 steps (2)-(5) flush the
            // buffer of a reassembly in progress
            pieces.push((0, len, false));
        }
        ds.push(Dgram { key, len, ttl: [1u8, 15, 30, 64, 255][rng.gen_range(0..5)], pieces });
    }
    out.put(&json!({"ev":"reset","run":run,"i":0,"nd":nd,"dups":dups}));
    let mut r = Reassembly::new();
    // arrival plan: every piece once (shuffled, interleaved across datagrams), some twice
    let mut plan: Vec<(usize, usize)> = vec![];
    for (k, d) in ds.iter().enumerate() {
        for p in 0..d.pieces.len() {
            plan.push((k, p));
            if dups && rng.gen_range(0..6) == 0 {
                plan.push((k, p));
            }
        }
    }
    plan.shuffle(rng);
    if rng.gen_range(0..3) == 0 {
        plan.sort_by_key(|x| x.0); // sometimes one datagram after the other
    }
    let mut tokens: Vec<(usize, BufId, Epoch, u64)> = vec![];
    let mut i = 1u64;
    let total = plan.len();
    let mut feed = |r: &mut Reassembly, k: usize, p: usize, i: &mut u64, out: &mut NdJson, tokens: &mut Vec<(usize, BufId, Epoch, u64)>| {
        let d = &ds[k];
        let (fo, len, mf) = d.pieces[p];
        let h = Ipv4Header {
            ihl: 5,
            type_of_service: 0.into(),
            total_length: (len + 20) as u16,
            identification: d.key.3,
            fragment_offset: fo,
            flags: ControlFlags::new(true, !mf),
            time_to_live: d.ttl,
            protocol: d.key.2,
            checksum: 0,
            source: Ipv4Address::new([10, 0, 0, d.key.0]),
            destination: Ipv4Address::new([10, 0, 1, d.key.1]),
        };
        let body: Vec<u8> = (0..len).map(|q| code(k as u32 + 1000 * run as u32, fo as usize * 8 + q)).collect();
        let res = catch_unwind(AssertUnwindSafe(|| r.receive_packet(h, Message::new(body))));
        let ev = match res {
            Err(_) => {
                let (msg, loc) = crate::tcbh::take_panic();
                json!({"ev":"rx","run":run,"i":*i,"k":k,"fo":fo,"len":len,"mf":mf,"res":"Panic","olen":0,"okbytes":false,"okhdr":false,"msg":msg,"loc":loc})
            }
            Ok(ReceivePacketResult::Complete(oh, m)) => {
                let okbytes = m.len() == d.len && m.iter().enumerate().all(|(q, x)| x == code(k as u32 + 1000 * run as u32, q));
                let okhdr = oh.total_length as usize == m.len() + 20
                    && oh.fragment_offset == 0
                    && oh.flags.is_last_fragment()
                    && oh.identification == d.key.3
                    && oh.protocol == d.key.2
                    && oh.source == h.source
                    && oh.destination == h.destination;
                json!({"ev":"rx","run":run,"i":*i,"k":k,"fo":fo,"len":len,"mf":mf,"res":"Complete","olen":m.len(),"okbytes":okbytes,"okhdr":okhdr})
            }
            Ok(ReceivePacketResult::Incomplete(t, b, e)) => {
                tokens.push((k, b, e, *i));
                json!({"ev":"rx","run":run,"i":*i,"k":k,"fo":fo,"len":len,"mf":mf,"res":"Incomplete","olen":0,"okbytes":true,"okhdr":true,
                       "timeout":t.as_secs(),"ttl":d.ttl,"epoch":e})
            }
        };
        out.put(&ev);
        *i += 1;
    };
    for (n, &(k, p)) in plan.iter().enumerate() {
        feed(&mut r, k, p, &mut i, out, &mut tokens);
        // the expiry callback of some earlier arrival fires (current or stale epoch)
        if !tokens.is_empty() && rng.gen_range(0..8) == 0 {
            // (every arrival schedules exactly one callback: a token fires at most once)
            let t = if rng.gen() { tokens.len() - 1 } else { rng.gen_range(0..tokens.len()) };
            let (k2, b, e, tok) = tokens.remove(t);
            // whether the callback freed a buffer is observed (the number of buffers in the Debug rendering),
            // not predicted from the epochs
            let nbuf = |r: &Reassembly| format!("{:?}", r).matches("Segment {").count();
            let before = nbuf(&r);
            r.maybe_cull_segment(b, e);
            let culled = nbuf(&r) < before;
            out.put(&json!({"ev":"expire","run":run,"i":i,"k":k2,"tok":tok,"epoch":e,"culled":culled}));
            i += 1;
        }
        let _ = n;
    }
    // afterwards every datagram is sent once more in order, so that the state left behind is observable
    for k in 0..ds.len() {
        let first_chain: Vec<usize> = {
            let mut v = vec![];
            for (p, pc) in ds[k].pieces.iter().enumerate() {
                v.push(p);
                if !pc.2 {
                    break;
                }
            }
            v
        };
        for p in first_chain {
            feed(&mut r, k, p, &mut i, out, &mut tokens);
        }
    }
    distinct.insert((nd, total.min(40), dups, tokens.len() > 3));
}

pub fn reasm_drive(a: &Args) {
    crate::tcbh::install_quiet_panic_hook();
    let mut rng = SmallRng::seed_from_u64(a.u64("seed", 1));
    let runs = a.u64("runs", 300);
    let dups = a.str("dups", "true") == "true";
    let mut out = NdJson::create(&a.str("out", "work/reasm.ndjson"));
    let mut distinct = std::collections::BTreeSet::new();
    for run in 0..runs {
        reasm_run(run, &mut rng, &mut out, dups, &mut distinct);
    }
    let lines = out.lines;
    out.finish();
    println!("{}", json!({"events": lines, "runs": runs, "distinct": distinct.len()}));
}
