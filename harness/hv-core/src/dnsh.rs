//! C20: a real DnsServer (records registered through add_mapping) and real DnsClients driven by harness
//! applications that call `get_host_by_name` concurrently / repeatedly; the frame hook delays frames
//! (reordering queries and replies) and records every DNS frame decoded from the wire layout.
use crate::simh::*;
use crate::util::*;
use elvis_core::machine::Machine;
use elvis_core::protocol::{DemuxError, StartError};
use elvis_core::protocols::ipv4::{Ipv4, Ipv4Address, Recipient};
use elvis_core::protocols::{Arp, DnsClient, DnsServer, Pci, SocketAPI, Tcp, Udp};
use elvis_core::{Control, IpTable, Message, Network, Protocol, Session, Shutdown};
use rand::rngs::SmallRng;
use rand::{Rng, SeedableRng};
use serde_json::{json, Value};
use std::any::TypeId;
use std::sync::{Arc, Mutex};
use std::time::Duration;
use tokio::sync::Barrier;

struct Look {
    c: usize,
    plan: Vec<(u64, u32, usize)>, // (time, lookup id, name index)
    names: Vec<String>,
    controller: bool,
}

#[async_trait::async_trait]
impl Protocol for Look {
    async fn start(&self, shutdown: Shutdown, initialized: Arc<Barrier>, machine: Arc<Machine>) -> Result<(), StartError> {
        initialized.wait().await;
        let mut plan = self.plan.clone();
        plan.sort_by_key(|p| p.0);
        let mut now = 0u64;
        for (at, lid, ni) in plan {
            if at > now {
                tokio::time::sleep(Duration::from_micros(at - now)).await;
                now = at;
            }
            let (c, name, machine) = (self.c, self.names[ni].clone(), machine.clone());
            tokio::spawn(async move {
                let dns = machine.protocol::<DnsClient>().unwrap();
                emit(json!({"ev":"lstart","c":c,"lid":lid,"name":ni}));
                let r = dns.get_host_by_name(name, machine.clone()).await;
                emit(json!({"ev":"lend","c":c,"lid":lid,"name":ni,"ok":r.is_ok(),"ip":r.map(|x| x.to_bytes()).unwrap_or([0,0,0,0])}));
            });
        }
        if self.controller {
            tokio::time::sleep(Duration::from_secs(8)).await;
            shutdown.shut_down();
        }
        Ok(())
    }
    fn demux(&self, _m: Message, _c: Arc<dyn Session>, _ctl: Control, _ma: Arc<Machine>) -> Result<(), DemuxError> {
        Ok(())
    }
}

/// A machine with nothing but a tap that puts UDP datagrams for the DNS server's port on the wire whose payload
/// is not a DNS message (C14: dropped at that layer, nothing crashes, the lookups of the others are served)
struct Junk {
    frames: Vec<(u64, Vec<u8>)>,
}

#[async_trait::async_trait]
impl Protocol for Junk {
    async fn start(&self, _sd: Shutdown, initialized: Arc<Barrier>, machine: Arc<Machine>) -> Result<(), StartError> {
        initialized.wait().await;
        let sess = machine.protocol::<Pci>().unwrap().open(0);
        let mut now = 0u64;
        for (k, (at, payload)) in self.frames.iter().enumerate() {
            if *at > now {
                tokio::time::sleep(Duration::from_micros(at - now)).await;
                now = *at;
            }
            let tl = (28 + payload.len()) as u16;
            let ul = (8 + payload.len()) as u16;
            // even frames: a "query" from the tap-only machine to the server; odd frames: a "reply" that claims to come
            // from the server, to the first ephemeral port of the first client
            let to_client = k % 2 == 1;
            let (src, dst, sport, dport) = if to_client { ([1u8, 3, 3, 7], [10u8, 1, 0, 10], 53u16, 49152u16) } else { ([10, 1, 0, 250], [1, 3, 3, 7], 4000 + k as u16, 53) };
            let mut f = vec![0x45, 0, (tl >> 8) as u8, tl as u8, 0, k as u8, 0x40, 0, 30, 17, 0, 0];
            f.extend(src);
            f.extend(dst);
            f.extend(sport.to_be_bytes());
            f.extend(dport.to_be_bytes());
            f.extend(ul.to_be_bytes());
            f.extend([0, 0]);
            f.extend(payload);
            let r = sess.send_pci(Message::new(f), None, TypeId::of::<Ipv4>());
            emit(json!({"ev":"junk","k":k,"len":payload.len(),"ok":r.is_ok()}));
        }
        Ok(())
    }
    fn demux(&self, _m: Message, _c: Arc<dyn Session>, _ctl: Control, _ma: Arc<Machine>) -> Result<(), DemuxError> {
        Ok(())
    }
}

fn junk_payload(rng: &mut SmallRng) -> Vec<u8> {
    // (random bytes never contain the delimiter, so that they cannot happen to be a well-formed message)
    let mut b = junk_payload0(rng);
    let keep = b.len() >= 17 && b[12..16] == *b"ab.c";
    if !keep {
        for x in b.iter_mut() {
            if *x == b' ' {
                *x = b'!';
            }
        }
    }
    b
}

fn junk_payload0(rng: &mut SmallRng) -> Vec<u8> {
    match rng.gen_range(0..7) {
        0 => vec![],
        1 => (0..rng.gen_range(1..12usize)).map(|_| rng.gen()).collect(),                 // shorter than a DNS header
        2 => (0..12).map(|_| rng.gen()).collect(),                                          // a header and nothing else
        3 => { let mut b: Vec<u8> = (0..12).map(|_| rng.gen()).collect(); b.extend(b"name-without-the-delimiter"); b }
        4 => { let mut b: Vec<u8> = (0..12).map(|_| rng.gen()).collect(); b.extend(b"ab.c"); b.push(b' '); b.extend([0, 1]); b } // truncated question
        5 => { let mut b: Vec<u8> = (0..12).map(|_| rng.gen()).collect(); b.extend([0xff, 0xfe, 0xfd]); b.push(b' '); b.extend([0, 1, 0, 1]); b.extend([0xff, 0xfe]); b.push(b' '); b.extend([0, 1, 0, 1, 0, 0, 0, 9, 0, 4, 1, 2, 3]); b } // not UTF-8, short rdata
        _ => (0..rng.gen_range(13..90usize)).map(|_| rng.gen()).collect(),
    }
}

fn rand_name(rng: &mut SmallRng, k: usize, long: bool) -> String {
    let chars: &[u8] = b"abcdefghijklmnopqrstuvwxyzABCXYZ0123456789.-_~!$&'()*+,;=:@/?#[]%^`{|}\"<>\\";
    let n = if long { [rng.gen_range(25..=40), rng.gen_range(25..=40), 100, 200, 239, 240, 241, 242, 250][rng.gen_range(0..9)] } else { [1usize, 2, 8, 24, 23, 12][rng.gen_range(0..6)] };
    let mut s: String = (0..n).map(|_| chars[rng.gen_range(0..chars.len())] as char).collect();
    // names of one run are distinct
    let tag = format!("{k}");
    s.replace_range(0..tag.len().min(s.len()), &tag[..tag.len().min(s.len())]);
    s
}

pub fn scenario(run: u64, rng: &mut SmallRng, long_names: bool, attack: bool) {
    let net = Network::basic();
    let nn = rng.gen_range(1..=3usize);
    let names: Vec<String> = (0..nn).map(|k| rand_name(rng, k, long_names && k == 0)).collect();
    let ips: Vec<[u8; 4]> = (0..nn).map(|_| [rng.gen_range(1..224), rng.gen(), rng.gen(), rng.gen_range(1..255)]).collect();
    let nc = rng.gen_range(1..=3usize);
    let mut plans: Vec<Vec<(u64, u32, usize)>> = vec![vec![]; nc];
    let mut lid = 0u32;
    for c in 0..nc {
        for _ in 0..rng.gen_range(1..=3usize) {
            plans[c].push(([0u64, 0, 2000, 400_000, 900_000][rng.gen_range(0..5)], lid, rng.gen_range(0..nn)));
            lid += 1;
        }
    }
    let junk: Vec<(u64, Vec<u8>)> = if attack {
        (0..rng.gen_range(1..=4usize)).map(|_| ([0u64, 500, 100_000, 450_000][rng.gen_range(0..4)], junk_payload(rng))).collect()
    } else {
        vec![]
    };
    begin_run(run, json!({"names": names.iter().map(|n| n.len()).collect::<Vec<_>>(), "ips": ips, "nc": nc, "junk": junk.len()}));
    let table = || -> IpTable<Recipient> { [("0.0.0.0/0", Recipient::new(0, None))].into_iter().collect() };
    // (the server serves a fixed number of datagrams and then stops accepting: the junk ones count)
    let server = DnsServer::new(lid as u16 + junk.len() as u16);
    for (n, ip) in names.iter().zip(ips.iter()) {
        server.add_mapping(n.clone(), Ipv4Address::new(*ip));
    }
    let mut machines = vec![Machine::new()
        .with(Udp::new())
        .with(Tcp::new())
        .with(Ipv4::new(table()))
        .with(Arp::new())
        .with(Pci::new([net.clone()]))
        .with(SocketAPI::new(Some(Ipv4Address::DNS_AUTH)))
        .with(server)
        .arc()];
    for c in 0..nc {
        machines.push(
            Machine::new()
                .with(Udp::new())
                .with(Tcp::new())
                .with(Ipv4::new(table()))
                .with(Arp::new())
                .with(Pci::new([net.clone()]))
                .with(SocketAPI::new(Some(Ipv4Address::new([10, 1, 0, 10 + c as u8]))))
                .with(DnsClient::new())
                .with(Look { c, plan: plans[c].clone(), names: names.clone(), controller: c == 0 })
                .arc(),
        );
    }
    if attack {
        let mut frames = junk.clone();
        frames.sort_by_key(|f| f.0);
        machines.push(Machine::new().with(Pci::new([net.clone()])).with(Junk { frames }).arc());
    }
    let plan = Mutex::new(SmallRng::seed_from_u64(rng.gen()));
    let names2 = names.clone();
    elvis_core::network::verif::set_frame_hook(Some(Arc::new(move |f: &elvis_core::network::verif::FrameInfo| {
        let b = &f.bytes;
        if f.protocol != TypeId::of::<Ipv4>() || b.len() < 28 + 12 || b[9] != 17 {
            return vec![Duration::ZERO];
        }
        let (sport, dport) = (u16::from_be_bytes([b[20], b[21]]), u16::from_be_bytes([b[22], b[23]]));
        if (sport != 53 && dport != 53) || b[12..16] == [10, 1, 0, 250] || b[16..20] == [10, 1, 0, 250] || (f.sender as usize) > nc {
            return vec![Duration::ZERO];
        }
        let d = &b[28..];
        let id = u16::from_be_bytes([d[0], d[1]]);
        let qend = d[12..].iter().position(|&x| x == b' ').map(|p| 12 + p).unwrap_or(d.len());
        let qname = String::from_utf8_lossy(&d[12..qend]).to_string();
        let ni = names2.iter().position(|n| *n == qname).map(|x| x as i64).unwrap_or(-1);
        // answer: name ' ' type class ttl rdlength rdata(4) at the very end
        let ans = [d[d.len() - 4], d[d.len() - 3], d[d.len() - 2], d[d.len() - 1]];
        let astart = qend + 5;
        let aend = d[astart.min(d.len())..].iter().position(|&x| x == b' ').map(|p| astart + p).unwrap_or(d.len());
        let aname = String::from_utf8_lossy(&d[astart.min(d.len())..aend]).to_string();
        let ai = names2.iter().position(|n| *n == aname).map(|x| x as i64).unwrap_or(-1);
        let c = if dport == 53 { b[15] as i64 - 10 } else { b[19] as i64 - 10 };
        emit(json!({"ev":"dnswire","dir": if dport == 53 {"q"} else {"r"},"id":id,"name":ni,"aname":ai,"c":c,
                    "cport": if dport == 53 { sport } else { dport },"ans":ans,"len":d.len()}));
        let delay = [0u64, 0, 1000, 5000, 20000][plan.lock().unwrap().gen_range(0..5)];
        vec![Duration::from_micros(delay)]
    })));
    let _ = run_paused(async {
        mark_start();
        elvis_core::run_internet_with_timeout(&machines, Duration::from_secs(20)).await
    });
    elvis_core::network::verif::set_frame_hook(None);
    emit(json!({"ev":"end"}));
}

pub fn drive(a: &Args) {
    install_panic_hook();
    let out = a.str("out", "work/dns.ndjson");
    *OUT_PATH.lock().unwrap() = Some(out.clone());
    if a.u64("from", 0) == 0 {
        let _ = std::fs::remove_file(&out);
    }
    let seed = a.u64("seed", 1);
    let runs = a.u64("runs", 100);
    let long = a.flag("long-names");
    for run in a.u64("from", 0)..runs {
        let mut rng = SmallRng::seed_from_u64(seed.wrapping_mul(86028121).wrapping_add(run));
        scenario(run, &mut rng, long, a.flag("attack"));
        flush_to(&out, true);
    }
    println!("{}", json!({"runs": runs}));
}
