//! C05: harness machines (Pci + a recording protocol) exchanging raw frames over real `Network`s under
//! virtual time. Events: `send` (result of send_pci), `rx` (demux on a tap with pci::DemuxInfo), `wire` (the
//! frame hook, every frame handed to a network).
use crate::simh::*;
use crate::util::*;
use elvis_core::machine::Machine;
use elvis_core::network::{Baud, Latency, NetworkBuilder, Throughput};
use elvis_core::protocol::{DemuxError, StartError};
use elvis_core::protocols::pci::{self, Pci};
use elvis_core::{Control, Message, Network, Protocol, Session, Shutdown};
use rand::rngs::SmallRng;
use rand::{Rng, SeedableRng};
use serde_json::{json, Value};
use std::any::TypeId;
use std::sync::Arc;
use std::time::Duration;
use tokio::sync::Barrier;

#[derive(Clone)]
struct Send1 {
    at_us: u64,
    slot: u32,
    dst: Option<u64>,
    len: usize,
    id: u32,
}

struct Rec {
    m: usize,
    script: Vec<Send1>,
    controller: bool,
}

/// MAC as a small integer: -1 = none (broadcast), -2 = the broadcast address (2^48-1 does not fit TLC's integers)
fn macj(d: Option<u64>) -> i64 {
    match d {
        None => -1,
        Some(Network::BROADCAST_MAC) => -2,
        Some(x) => x as i64,
    }
}

fn payload(id: u32, len: usize) -> Vec<u8> {
    // the first byte names the frame, the rest is a pattern depending on the position
    (0..len).map(|k| if k == 0 { id as u8 } else { ((id as usize * 31 + k * 7) % 251) as u8 }).collect()
}

#[async_trait::async_trait]
impl Protocol for Rec {
    async fn start(&self, shutdown: Shutdown, initialized: Arc<Barrier>, machine: Arc<Machine>) -> Result<(), StartError> {
        initialized.wait().await;
        let pci = machine.protocol::<Pci>().unwrap();
        let mut script = self.script.clone();
        script.sort_by_key(|s| s.at_us);
        let mut now = 0u64;
        for s in script {
            if s.at_us > now {
                tokio::time::sleep(Duration::from_micros(s.at_us - now)).await;
                now = s.at_us;
            }
            let sess = pci.open(s.slot);
            let res = sess.send_pci(Message::new(payload(s.id, s.len)), s.dst, TypeId::of::<Rec>());
            emit(json!({"ev":"send","m":self.m,"slot":s.slot,"mac":sess.mac(),"dst":macj(s.dst),
                        "len":s.len,"id":s.id,"ok":res.is_ok()}));
        }
        if self.controller {
            tokio::time::sleep(Duration::from_secs(20)).await;
            shutdown.shut_down();
        }
        Ok(())
    }

    fn demux(&self, message: Message, _caller: Arc<dyn Session>, control: Control, _machine: Arc<Machine>) -> Result<(), DemuxError> {
        let info = control.get::<pci::DemuxInfo>().copied();
        let bytes = message.to_vec();
        // the payload identifies itself: find the id whose pattern matches
        // (at most one zero-length frame per run: it is frame 63)
        let id = if bytes.is_empty() { 63 } else if payload(bytes[0] as u32, bytes.len()) == bytes { bytes[0] as i64 } else { -1 };
        match info {
            Some(i) => emit(json!({"ev":"rx","m":self.m,"slot":i.slot,"src":i.source,"dst":macj(i.destination),
                                   "len":bytes.len(),"id":id,"mtu":i.mtu})),
            None => emit(json!({"ev":"rx","m":self.m,"slot":-1,"src":-1,"dst":-1,"len":bytes.len(),"id":id,"mtu":0})),
        }
        Ok(())
    }
}

pub fn scenario(run: u64, rng: &mut SmallRng) {
    let nnets = rng.gen_range(1..=2usize);
    let mut nets: Vec<Arc<Network>> = vec![];
    let mut netcfg: Vec<Value> = vec![];
    for _ in 0..nnets {
        let mtu = [100u16, 1500, 60, 100, 1500, 65535][rng.gen_range(0..6)];
        let (lat_base, lat_rand) = [(0u64, 0u64), (3000, 0), (2000, 3000), (0, 0)][rng.gen_range(0..4)];
        let (thr_base, thr_rand) = [(0u64, 0u64), (100_000, 0), (50_000, 50_000), (1_000_000, 0)][rng.gen_range(0..4)];
        let mut b = NetworkBuilder::new().mtu(mtu);
        if lat_base > 0 || lat_rand > 0 {
            b = b.latency(if lat_rand > 0 {
                Latency::variable(Duration::from_micros(lat_base), Duration::from_micros(lat_rand))
            } else {
                Latency::constant(Duration::from_micros(lat_base))
            });
        }
        if thr_base > 0 {
            b = b.throughput(if thr_rand > 0 {
                Throughput::variable(Baud::bytes_per_second(thr_base), Baud::bytes_per_second(thr_rand))
            } else {
                Throughput::constant(Baud::bytes_per_second(thr_base))
            });
        }
        nets.push(b.build());
        netcfg.push(json!({"mtu":mtu,"lat":lat_base,"latr":lat_rand,"bps":thr_base,"bpsr":thr_rand}));
    }
    let nm = rng.gen_range(2..=5usize);
    // taps[m] = networks of the machine's slots (two taps of one machine may sit on the same network)
    let mut taps: Vec<Vec<usize>> = vec![];
    for _ in 0..nm {
        let k = rng.gen_range(1..=2usize);
        taps.push((0..k).map(|_| rng.gen_range(0..nnets)).collect());
    }
    // MAC addresses are handed out per network in creation order
    let mut next_mac = vec![0u64; nnets];
    let mut macs: Vec<Vec<u64>> = vec![];
    for t in &taps {
        let mut v = vec![];
        for &n in t {
            v.push(next_mac[n]);
            next_mac[n] += 1;
        }
        macs.push(v);
    }
    let nsend = rng.gen_range(1..=7usize);
    let mut scripts: Vec<Vec<Send1>> = vec![vec![]; nm];
    let mut have_zero = false;
    for id in 0..nsend {
        let m = rng.gen_range(0..nm);
        let slot = rng.gen_range(0..taps[m].len());
        let net = taps[m][slot];
        let mtu = netcfg[net]["mtu"].as_u64().unwrap() as usize;
        let dst = match rng.gen_range(0..6) {
            0 => None,
            1 => Some(Network::BROADCAST_MAC),
            2 => Some(999),
            _ => Some(rng.gen_range(0..next_mac[net])),
        };
        let mut len = [mtu - 1, mtu, mtu + 1, 1, 20, 0][rng.gen_range(0..6)];
        if rng.gen_range(0..8) == 0 {
            // far beyond the MTU: multiples of 2^16 plus something that would fit (length arithmetic in 16 bits)
            len = [65536, 65536 + mtu, 65535 + mtu, 65537 + mtu, 65536 + 20, 2 * 65536 + 1, 3 * mtu, 200_000][rng.gen_range(0..8)];
        }
        if mtu == 65535 && len < 60000 && len > 100 {
            len = 100;
        }
        if len == 0 && have_zero {
            len = 2;
        }
        have_zero |= len == 0;
        let id = if len == 0 { 63 } else { id };
        let at_us = [0u64, 0, 0, 1000, 5000, 250][rng.gen_range(0..6)];
        scripts[m].push(Send1 { at_us, slot: slot as u32, dst, len, id: id as u32 });
    }
    let tapj: Vec<Value> = (0..nm).map(|m| json!((0..taps[m].len()).map(|s| json!({"net":taps[m][s],"mac":macs[m][s]})).collect::<Vec<_>>())).collect();
    begin_run(run, json!({"nets":netcfg,"taps":tapj}));
    let machines: Vec<Arc<Machine>> = (0..nm)
        .map(|m| {
            Machine::new()
                .with(Pci::new(taps[m].iter().map(|&n| nets[n].clone())))
                .with(Rec { m, script: scripts[m].clone(), controller: m == 0 })
                .arc()
        })
        .collect();
    // real MAC addresses as the code assigned them
    for (m, mach) in machines.iter().enumerate() {
        let real: Vec<u64> = mach.protocol::<Pci>().unwrap().mac_addresses().collect();
        emit(json!({"ev":"macs","m":m,"macs":real}));
    }
    let ids: Vec<usize> = nets.iter().map(elvis_core::network::verif::network_id).collect();
    elvis_core::network::verif::set_frame_hook(Some(Arc::new(move |f: &elvis_core::network::verif::FrameInfo| {
        let net = ids.iter().position(|&x| x == f.network).map(|x| x as i64).unwrap_or(-1);
        emit(json!({"ev":"wire","net":net,"src":f.sender,"dst":macj(f.destination),"len":f.bytes.len()}));
        vec![Duration::ZERO]
    })));
    let status = run_paused(async {
        mark_start();
        elvis_core::run_internet_with_timeout(&machines, Duration::from_secs(30)).await
    });
    elvis_core::network::verif::set_frame_hook(None);
    emit(json!({"ev":"end","status":format!("{:?}", status)}));
}

pub fn drive(a: &Args) {
    install_panic_hook();
    let out = a.str("out", "work/link.ndjson");
    *OUT_PATH.lock().unwrap() = Some(out.clone());
    if a.u64("from", 0) == 0 {
        let _ = std::fs::remove_file(&out);
    }
    let seed = a.u64("seed", 1);
    let runs = a.u64("runs", 100);
    let from = a.u64("from", 0);
    for run in from..runs {
        let mut rng = SmallRng::seed_from_u64(seed.wrapping_mul(7919).wrapping_add(run));
        scenario(run, &mut rng);
        flush_to(&out, true);
    }
    println!("{}", json!({"runs": runs - from}));
}
