//! C12(i): the real circular comparison primitives on sampled (a, d), d < 2^31.
use crate::util::*;
use elvis_core::protocols::tcp::verif::{mod_bounded, mod_geq, mod_gt, mod_leq, mod_lt, ModCmp};
use rand::rngs::SmallRng;
use rand::{Rng, SeedableRng};
use serde_json::json;

fn hl(x: u32) -> [u32; 2] {
    [x >> 16, x & 0xffff]
}

fn pick_a(rng: &mut SmallRng) -> u32 {
    match rng.gen_range(0..5) {
        0 => rng.gen(),
        1 => rng.gen_range(0..70000),
        2 => (0u32).wrapping_sub(rng.gen_range(1..70000)),
        3 => (1u32 << 31).wrapping_add(rng.gen_range(0..70000)),
        _ => (1u32 << 31).wrapping_sub(rng.gen_range(1..70000)),
    }
}

fn pick_d(rng: &mut SmallRng) -> u32 {
    const H: u32 = 1 << 31;
    match rng.gen_range(0..8) {
        0 => 0,
        1 => 1,
        2 => 2,
        3 => H - 2,
        4 => H - 1,
        5 => rng.gen_range(0..70000),
        _ => rng.gen_range(0..H),
    }
}

pub fn drive(a: &Args) {
    let mut rng = SmallRng::seed_from_u64(a.u64("seed", 1));
    let n = a.u64("n", 20000);
    let mut out = NdJson::create(&a.str("out", "work/modcmp.ndjson"));
    let mut distinct = std::collections::BTreeSet::new();
    for i in 0..n {
        let x = pick_a(&mut rng);
        if i % 2 == 0 {
            let d = pick_d(&mut rng);
            let y = x.wrapping_add(d);
            distinct.insert((x >> 28, d.min(3), d >> 28));
            out.put(&json!({"ev":"cmp","i":i,"a":hl(x),"d":hl(d),
                "lt":mod_lt(x,y),"leq":mod_leq(x,y),"gt":mod_gt(y,x),"geq":mod_geq(y,x),
                "rlt":mod_lt(y,x),"rleq":mod_leq(y,x),"rgt":mod_gt(x,y),"rgeq":mod_geq(x,y)}));
        } else {
            // three points spanning less than 2^31 - 2
            let d1 = pick_d(&mut rng) / 2;
            let d2 = (pick_d(&mut rng) / 2).saturating_sub(2);
            let (y, z) = (x.wrapping_add(d1), x.wrapping_add(d1).wrapping_add(d2));
            let ab = if rng.gen() { ModCmp::Lt } else { ModCmp::Leq };
            let bc = if rng.gen() { ModCmp::Lt } else { ModCmp::Leq };
            distinct.insert((x >> 28, d1.min(3) + 10 * d2.min(3), (d1 >> 28) + 100));
            out.put(&json!({"ev":"bnd","i":i,"a":hl(x),"d1":hl(d1),"d2":hl(d2),
                "ab": if ab == ModCmp::Lt {"Lt"} else {"Leq"}, "bc": if bc == ModCmp::Lt {"Lt"} else {"Leq"},
                "res": mod_bounded(x, ab, y, bc, z)}));
        }
    }
    let lines = out.lines;
    out.finish();
    println!("{}", json!({"events": lines, "distinct": distinct.len()}));
}
