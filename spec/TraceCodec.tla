----------------------------- MODULE TraceCodec -----------------------------
(***************************************************************************)
(* C08 / C14 / C18 on the real header codecs.  Every recorded sample is     *)
(* compared with the wire formats of Codec.tla:                             *)
(*   codec : real encoder output = Enc(fields); real decoder gives the      *)
(*           fields back; the independent implementation (etherparse)       *)
(*           produces the same bytes and the real decoder accepts them      *)
(*   dec   : an arbitrary byte string never makes a decoder panic, and it   *)
(*           is accepted exactly when the format's acceptance predicate     *)
(*           holds, with the fields the layout defines                      *)
(* CONSTANT Checked: the compute_checksum build (C18), where the checksum   *)
(* field must verify under RFC 1071 instead of being 0.                     *)
(***************************************************************************)
EXTENDS Codec, Json, IOUtils
CONSTANT Checked
Rec == ndJsonDeserialize(IOEnv.TRACE)
VARIABLES l, bad, nbad
T(x) == [i \in 1..Len(x) |-> x[i]]
\* header bytes (even length) plus payload words / partial sums folded by the harness
VerW(hdr, pw) == OcSum(Words(hdr) \o pw) = 65535
Pick(r, keys) == [k \in keys |-> r[k]]
DnsKeys == {"id", "props", "qd", "an", "ns", "ar", "qname", "aname", "atype", "ttl", "rdata"}
CodecWhy(e) ==
  CASE e.kind = "ipv4" ->
         IF ~e.enc_ok THEN "a representable IPv4 header could not be encoded"
         ELSE IF ~Checked /\ e.enc # EncIpv4(e.f) THEN "IPv4 encoding differs from RFC 791"
         ELSE IF Checked /\ ~(Sub(e.enc, 1, 10) = Sub(EncIpv4(e.f), 1, 10) /\ Sub(e.enc, 13, 8) = Sub(EncIpv4(e.f), 13, 8)) THEN "IPv4 encoding differs from RFC 791"
         ELSE IF Checked /\ ~Verifies(e.enc) THEN "the emitted IPv4 header checksum does not verify (RFC 1071)"
         ELSE IF ~e.dec_ok \/ Pick(e.dec, DOMAIN e.f \ {"ck"}) # Pick(e.f, DOMAIN e.f \ {"ck"}) THEN "decoding the encoded IPv4 header does not give the value back"
         ELSE IF ~Checked /\ e.ref # e.enc THEN "IPv4 encoding differs from the independent implementation"
         ELSE IF Checked /\ ~(Sub(e.ref, 1, 10) = Sub(e.enc, 1, 10) /\ Sub(e.ref, 13, 8) = Sub(e.enc, 13, 8) /\ Verifies(e.ref)) THEN "IPv4 encoding differs from the independent implementation"
         ELSE IF ~e.refdec_ok \/ Pick(e.refdec, DOMAIN e.f \ {"ck"}) # Pick(e.f, DOMAIN e.f \ {"ck"}) THEN "the IPv4 decoder rejects or misreads the independent implementation's output"
         ELSE ""
    [] e.kind = "udp" ->
         IF ~e.enc_ok THEN (IF e.f.len > 65535 THEN "" ELSE "a representable UDP header could not be encoded")
         ELSE IF Sub(e.enc, 1, 6) # Sub(EncUdp(e.f), 1, 6) \/ (~Checked /\ e.enc # EncUdp(e.f)) THEN "UDP encoding differs from RFC 768"
         ELSE IF Checked /\ ~VerW(Pseudo(e.src, e.dst, 17, e.plen) \o e.enc, e.pw) THEN "the emitted UDP checksum does not verify (RFC 1071 over pseudo header, header and payload)"
         ELSE IF ~e.dec_ok \/ Pick(e.dec, {"sport", "dport", "len"}) # Pick(e.f, {"sport", "dport", "len"}) THEN "decoding the encoded UDP header does not give the value back"
         ELSE IF Sub(e.ref, 1, 6) # Sub(e.enc, 1, 6) \/ (~Checked /\ e.ref # e.enc) THEN "UDP encoding differs from the independent implementation"
         ELSE IF Checked /\ ~VerW(Pseudo(e.src, e.dst, 17, e.plen) \o e.ref, e.pw) THEN "(harness) the reference UDP packet does not verify"
         ELSE IF ~e.refdec_ok \/ Pick(e.refdec, {"sport", "dport", "len"}) # Pick(e.f, {"sport", "dport", "len"}) THEN "the UDP decoder rejects or misreads the independent implementation's output"
         ELSE ""
    [] e.kind = "tcp" ->
         IF ~e.enc_ok THEN "a representable TCP header could not be encoded"
         ELSE IF Sub(e.enc, 1, 16) # Sub(EncTcp(e.f), 1, 16) \/ Sub(e.enc, 19, 2) # Sub(EncTcp(e.f), 19, 2) \/ (~Checked /\ e.enc # EncTcp(e.f)) THEN "TCP encoding differs from RFC 9293"
         ELSE IF Checked /\ ~VerW(Pseudo(e.src, e.dst, 6, e.plen) \o e.enc, e.pw) THEN "the emitted TCP checksum does not verify (RFC 1071 over pseudo header, header and payload)"
         ELSE IF ~e.dec_ok \/ Pick(e.dec, DOMAIN e.f \ {"ck"}) # Pick(e.f, DOMAIN e.f \ {"ck"}) THEN "decoding the encoded TCP header does not give the value back"
         ELSE IF Sub(e.ref, 1, 16) # Sub(e.enc, 1, 16) \/ Sub(e.ref, 19, 2) # Sub(e.enc, 19, 2) \/ (~Checked /\ e.ref # e.enc) THEN "TCP encoding differs from the independent implementation"
         ELSE IF Checked /\ ~VerW(Pseudo(e.src, e.dst, 6, e.plen) \o e.ref, e.pw) THEN "(harness) the reference TCP packet does not verify"
         ELSE IF ~e.refdec_ok \/ Pick(e.refdec, DOMAIN e.f \ {"ck"}) # Pick(e.f, DOMAIN e.f \ {"ck"}) THEN "the TCP decoder rejects or misreads the independent implementation's output"
         ELSE ""
    [] e.kind = "arp" ->
         IF e.enc # EncArp(e.f) THEN "ARP encoding differs from the Ethernet/IPv4 layout"
         ELSE IF ~e.dec_ok \/ e.dec # e.f THEN "decoding the encoded ARP packet does not give the value back"
         ELSE ""
    [] e.kind = "dns" ->
         LET d == DecDns(e.ref) IN
         IF d.ok # e.dec_ok THEN "the DNS decoder accepts / rejects a byte string differently from the layout"
         ELSE IF ~d.ok THEN ""
         ELSE IF Pick(e.dec, DnsKeys) # Pick(d.f, DnsKeys) THEN "DNS fields decoded differently from the layout"
         ELSE IF e.enc # SubSeq(e.ref, 1, d.used) THEN "re-encoding a decoded DNS message does not reproduce the bytes that were consumed"
         ELSE ""
    [] e.kind = "dhcp" ->
         LET d == DecDhcp(e.ref) IN
         IF d.ok # e.dec_ok THEN "the DHCP decoder accepts / rejects a byte string differently from the layout"
         ELSE IF ~d.ok THEN ""
         ELSE IF e.dec # d.f THEN "DHCP fields decoded differently from the layout"
         ELSE IF e.enc # SubSeq(e.ref, 1, d.used) THEN "re-encoding a decoded DHCP message does not reproduce the bytes that were consumed"
         ELSE ""
DecWhy(e) ==
  IF e.res = "panic" THEN "a decoder panicked on a byte string: " \o e.kind \o ": " \o e.msg
  ELSE LET d == CASE e.kind = "ipv4" -> DecIpv4(e.b, Checked)
                  [] e.kind = "udp" -> DecUdp(e.b, e.plen, e.src, e.dst, Checked)
                  [] e.kind = "tcp" -> DecTcp(e.b, e.plen, e.src, e.dst, Checked)
                  [] e.kind = "arp" -> DecArp(e.b)
                  [] e.kind = "dns" -> DecDns(e.b)
                  [] e.kind = "dhcp" -> DecDhcp(e.b) IN
       IF d.ok # (e.res = "ok") THEN "a decoder accepts / rejects a byte string differently from the format: " \o e.kind
       ELSE IF ~d.ok THEN ""
       ELSE IF e.kind = "dns" THEN (IF Pick(e.f, DnsKeys) = Pick(d.f, DnsKeys) THEN "" ELSE "decoded fields differ from the layout: dns")
       ELSE IF e.f = d.f THEN "" ELSE "decoded fields differ from the layout: " \o e.kind
Why(e) == IF e.ev = "codec" THEN CodecWhy(e) ELSE IF e.ev = "dec" THEN DecWhy(e) ELSE ""
TInit == l = 1 /\ bad = {} /\ nbad = 0 /\ kind = "none" /\ h = 0
TNext == /\ l <= Len(Rec) /\ l' = l + 1 /\ UNCHANGED <<kind, h>>
         /\ LET w == Why(Rec[l]) IN
            /\ nbad' = IF w = "" THEN nbad ELSE nbad + 1
            /\ bad' = IF w = "" \/ Cardinality({x \in bad : x.clause = w}) >= 3 THEN bad
                      ELSE bad \cup {[i |-> Rec[l].i, clause |-> w, kind |-> Rec[l].kind]}
TSpec == TInit /\ [][TNext]_<<l, bad, nbad, kind, h>>
Report == TLCSet(1, [bad |-> bad, nbad |-> nbad, runs |-> 1, events |-> l - 1])
Final == /\ PrintT(<<"TRACE-RESULT", ToJson(TLCGet(1))>>)
         /\ PrintT(<<"TRACE-SUMMARY", ToJson([events |-> Len(Rec), consumed |-> TLCGet("stats").diameter - 1])>>)
=============================================================================
