SPECIFICATION Spec
CONSTANTS
  Macs = {"a", "b", "c"}
  Frames <- F3
  Src <- SrcA
  Dst <- DstA
  Len <- LenA
  Mtu = 4
  Lat = 2
  Bps = 1000
  Horizon = 4
INVARIANTS Unicast Broadcast Nobody MtuRule RefusedSilent NotEarly NoOverlap OnePermit Done
CHECK_DEADLOCK FALSE
