------------------------------- MODULE Message -------------------------------
(***************************************************************************)
(* C07.  A Message is a byte string.  Two layers:                          *)
(*   pool   : the property-level view, message id -> sequence of bytes     *)
(*   poolC  : message.rs transcribed: a message is a deque of chunk windows *)
(*            <<buffer, start, end>> into immutable shared buffers plus a   *)
(*            cached length; header = push_front, concatenate = append,    *)
(*            slice / cut / remove_front = the window arithmetic of the code*)
(* Every operation is applied to both; Refines states that the chunk-level *)
(* result flattens to the byte-string result (for every message of the     *)
(* pool: operations on one message never change another, although buffers  *)
(* are shared by clone / cut / concatenate).                               *)
(***************************************************************************)
EXTENDS Integers, Sequences, FiniteSets, TLC
CONSTANTS Byte, MaxChunk, MaxPool, MaxOps

VARIABLES pool, poolC, bufs, ops, ret
vars == <<pool, poolC, bufs, ops, ret>>

Ids == 1..MaxPool
Chunk(b, s, e) == [buf |-> b, s |-> s, e |-> e]
CLen(c) == c.e - c.s
RECURSIVE Flat(_)
Flat(cs) == IF cs = <<>> THEN <<>> ELSE SubSeq(bufs[Head(cs).buf], Head(cs).s + 1, Head(cs).e) \o Flat(Tail(cs))
Msg(cs, n) == [chunks |-> cs, len |-> n]
Strings == UNION {[1..n -> Byte] : n \in 0..MaxChunk}

Init == pool = <<>> /\ poolC = <<>> /\ bufs = <<>> /\ ops = 0 /\ ret = <<>>

Tick == ops < MaxOps /\ ops' = ops + 1

\* Message::new(bytes)
New(bs) == /\ Tick /\ Len(pool) < MaxPool
           /\ bufs' = Append(bufs, bs)
           /\ pool' = Append(pool, bs)
           /\ poolC' = Append(poolC, Msg(<<Chunk(Len(bufs) + 1, 0, Len(bs))>>, Len(bs)))
           /\ ret' = <<>>
\* Message::header(bytes)
Header(i, bs) == /\ Tick /\ i \in DOMAIN pool
                 /\ bufs' = Append(bufs, bs)
                 /\ pool' = [pool EXCEPT ![i] = bs \o @]
                 /\ poolC' = [poolC EXCEPT ![i] = Msg(<<Chunk(Len(bufs) + 1, 0, Len(bs))>> \o @.chunks, @.len + Len(bs))]
                 /\ ret' = <<>>
\* a.concatenate(b.clone())
Concat(i, j) == /\ Tick /\ i \in DOMAIN pool /\ j \in DOMAIN pool
                /\ pool' = [pool EXCEPT ![i] = @ \o pool[j]]
                /\ poolC' = [poolC EXCEPT ![i] = Msg(@.chunks \o poolC[j].chunks, @.len + poolC[j].len)]
                /\ UNCHANGED bufs /\ ret' = <<>>
\* Message::clone
Clone(i) == /\ Tick /\ i \in DOMAIN pool /\ Len(pool) < MaxPool
            /\ pool' = Append(pool, pool[i]) /\ poolC' = Append(poolC, poolC[i])
            /\ UNCHANGED bufs /\ ret' = <<>>

\* --- slice_inner(start, len or -1 for None)
RECURSIVE DropLead(_, _)
DropLead(cs, start) ==            \* "Remove leading chunks that are no longer accessible"
  IF cs # <<>> /\ CLen(Head(cs)) <= start THEN DropLead(Tail(cs), start - CLen(Head(cs)))
  ELSE [cs |-> cs, start |-> start]
RECURSIVE KeepFor(_, _)
KeepFor(cs, keep) ==              \* "Find and update the last accessible chunk", then drain
  IF cs = <<>> THEN <<>>
  ELSE IF keep >= CLen(Head(cs)) THEN <<Head(cs)>> \o KeepFor(Tail(cs), keep - CLen(Head(cs)))
  ELSE <<[Head(cs) EXCEPT !.e = Head(cs).s + keep]>>
SliceC(m, start, n) ==
  LET newlen == IF n < 0 THEN m.len - start ELSE n
      d == DropLead(m.chunks, start)
      cs1 == IF d.cs = <<>> THEN <<>> ELSE <<[Head(d.cs) EXCEPT !.s = @ + d.start]>> \o Tail(d.cs)
  IN Msg(KeepFor(cs1, newlen), newlen)
Slice(i, start, n) ==
  /\ Tick /\ i \in DOMAIN pool
  /\ start + (IF n < 0 THEN 0 ELSE n) <= Len(pool[i])          \* the code asserts this
  /\ pool' = [pool EXCEPT ![i] = SubSeq(@, start + 1, IF n < 0 THEN Len(@) ELSE start + n)]
  /\ poolC' = [poolC EXCEPT ![i] = SliceC(@, start, n)]
  /\ UNCHANGED bufs /\ ret' = <<>>

\* --- cut(n): returns the first n bytes as a new message
RECURSIVE CutC(_, _, _)
CutC(cs, rem, acc) ==             \* -> [taken, rest]
  IF cs = <<>> THEN [taken |-> acc, rest |-> <<>>]
  ELSE IF CLen(Head(cs)) <= rem THEN CutC(Tail(cs), rem - CLen(Head(cs)), Append(acc, Head(cs)))
  ELSE [taken |-> IF rem > 0 THEN Append(acc, [Head(cs) EXCEPT !.e = Head(cs).s + rem]) ELSE acc,
        rest |-> <<[Head(cs) EXCEPT !.s = @ + rem]>> \o Tail(cs)]
Cut(i, n) ==
  /\ Tick /\ i \in DOMAIN pool /\ n <= Len(pool[i]) /\ Len(pool) < MaxPool
  /\ LET r == CutC(poolC[i].chunks, n, <<>>) IN
     /\ poolC' = Append([poolC EXCEPT ![i] = Msg(r.rest, @.len - n)], Msg(r.taken, n))
     /\ pool' = Append([pool EXCEPT ![i] = SubSeq(@, n + 1, Len(@))], SubSeq(pool[i], 1, n))
  /\ UNCHANGED bufs /\ ret' = <<>>
\* --- remove_front(n)
RECURSIVE RemC(_, _)
RemC(cs, rem) == IF cs = <<>> THEN <<>>
                 ELSE IF CLen(Head(cs)) <= rem THEN RemC(Tail(cs), rem - CLen(Head(cs)))
                 ELSE <<[Head(cs) EXCEPT !.s = @ + rem]>> \o Tail(cs)
RemoveFront(i, n) ==
  /\ Tick /\ i \in DOMAIN pool /\ n <= Len(pool[i])
  /\ poolC' = [poolC EXCEPT ![i] = Msg(RemC(@.chunks, n), @.len - n)]
  /\ pool' = [pool EXCEPT ![i] = SubSeq(@, n + 1, Len(@))]
  /\ UNCHANGED bufs /\ ret' = <<>>

Next == \/ \E bs \in Strings : New(bs)
        \/ \E i \in Ids, bs \in Strings : Header(i, bs)
        \/ \E i, j \in Ids : Concat(i, j)
        \/ \E i \in Ids : Clone(i)
        \/ \E i \in Ids : \E start \in 0..(MaxChunk * 3), n \in -1..(MaxChunk * 3) : Slice(i, start, n)
        \/ \E i \in Ids : \E n \in 0..(MaxChunk * 3) : Cut(i, n) \/ RemoveFront(i, n)
Spec == Init /\ [][Next]_vars

Refines == \A i \in DOMAIN pool : Flat(poolC[i].chunks) = pool[i] /\ poolC[i].len = Len(pool[i])
WellFormed == \A i \in DOMAIN poolC : \A k \in 1..Len(poolC[i].chunks) :
                LET c == poolC[i].chunks[k] IN 0 <= c.s /\ c.s <= c.e /\ c.e <= Len(bufs[c.buf])
\* an operation on message i leaves every other message's bytes unchanged (Cut/Clone/New append a message)
Independent == [][\A j \in DOMAIN pool : (j \in DOMAIN pool' /\ pool'[j] # pool[j]) =>
                    Cardinality({x \in DOMAIN pool : x \in DOMAIN pool' /\ pool'[x] # pool[x]}) = 1]_vars
=============================================================================
