------------------------------ MODULE TraceTcp ------------------------------
(***************************************************************************)
(* Property-level specification (P-spec) of a TCP connection between two   *)
(* endpoints A and B, and its evaluation on executions RECORDED FROM THE   *)
(* REAL Tcb CODE (harness/hv-core, tcbh.rs).  One NDJSON event per API call.*)
(*                                                                         *)
(* The variables are only what the listed properties talk about:           *)
(*   sent[p]     bytes the application of p has submitted (accepted writes) *)
(*   got[p]      bytes handed to the application of p by receive()         *)
(*   st[p]       connection state of p (incl. Closed / Listen)             *)
(*   edge[p]     right edge of the window the peer has advertised to p     *)
(*   ...                                                                   *)
(* Each recorded event is one step  s' = Step(s, e).  The properties C01,  *)
(* C03, C12(ii), C17 are predicates over (s, e, s') evaluated at EVERY     *)
(* step; a failing predicate is recorded in s.bad (run, index, property,   *)
(* clause) and reported by the POSTCONDITION (one line per violation), so  *)
(* that TLC does not print a 100 000-state counterexample.                 *)
(***************************************************************************)
EXTENDS Integers, Sequences, FiniteSets, TLC, Json, IOUtils

Rec == ndJsonDeserialize(IOEnv.TRACE)

VARIABLES l, s

Peer(p) == IF p = "A" THEN "B" ELSE "A"
P == {"A", "B"}

FIN == 1  SYN == 2  RST == 4  PSH == 8  ACK == 16  URG == 32
Has(c, b) == (c \div b) % 2 = 1

Readable   == {"SynSent", "SynRcvd", "Estab", "FinWait1", "FinWait2", "CloseWait"}
Writable   == {"SynSent", "SynRcvd", "Estab"}
Synced     == {"Estab", "FinWait1", "FinWait2", "CloseWait", "Closing", "LastAck", "TimeWait"}
NoTcb      == {"Closed", "Listen"}

(***************************************************************************)
(* RFC 9293 figure 5 (+ the text of 3.10.7.4 for SYN-RECEIVED/FIN and RST),*)
(* split by cause.  A single API call may take several arrival edges (the  *)
(* in-order queue is drained in one call), hence the closure.              *)
(***************************************************************************)
ArriveEdges ==
  { <<"Listen","SynRcvd">>, <<"SynSent","SynRcvd">>, <<"SynSent","Estab">>,
    <<"SynRcvd","Estab">>, <<"SynRcvd","CloseWait">>, <<"Estab","CloseWait">>,
    <<"FinWait1","FinWait2">>, <<"FinWait1","Closing">>, <<"FinWait1","TimeWait">>,
    <<"FinWait2","TimeWait">>, <<"Closing","TimeWait">>, <<"LastAck","Closed">> }
States == {"Closed","Listen","SynSent","SynRcvd","Estab","FinWait1","FinWait2",
           "CloseWait","Closing","LastAck","TimeWait"}
RECURSIVE Reach(_, _)
Reach(S, n) == IF n = 0 THEN S
               ELSE Reach(S \cup {e[2] : e \in {f \in ArriveEdges : f[1] \in S}}, n - 1)
ArriveOk(a, b) == b \in Reach({a}, 4)
\* a segment with RST may delete the TCB from any state (back to LISTEN for a passive SYN-RECEIVED)
ResetOk(a, b) == b \in NoTcb
CloseEdges == { <<"SynRcvd","FinWait1">>, <<"Estab","FinWait1">>, <<"CloseWait","LastAck">> }
TickEdges  == { <<"TimeWait","Closed">> }

(***************************************************************************)
(* State of the P-spec                                                     *)
(***************************************************************************)
Fn(v) == [p \in P |-> v]
Clamp(x) == IF x > 1073741824 THEN 1073741824 ELSE IF x < -1073741824 THEN -1073741824 ELSE x
Init0 == [ run |-> -1, profile |-> "none", sent |-> Fn(0), got |-> Fn(0), st |-> Fn("Closed"),
           closeSent |-> Fn(-1),      \* sent[p] when p's close() was accepted, -1 = not closed
           edge |-> Fn(-1),           \* greatest ack+wnd-1 advertised to p (stream offset bound)
           hi |-> Fn(0),              \* highest sequence position p has put on the wire (new data lies above it)
           unread |-> Fn(0),          \* bytes buffered for p's reader when p's TCB was released
           fresh |-> Fn(0),           \* bytes that arrived in the call that left the readable states
           intext |-> Fn(0), rnxt |-> Fn(0), nxt |-> Fn(0), una |-> Fn(0), heapN |-> Fn(0),
           incarn |-> Fn(0),          \* number of TCBs p has had (properties relate one incarnation)
           tainted |-> FALSE,         \* a forged segment was acceptable: stream content no longer judged
           panicked |-> FALSE,
           bad |-> {}, nbad |-> 0, events |-> 0, runs |-> 0 ]

SnapOf(e, p) == IF p = "A" THEN e.snapA ELSE e.snapB
StOf(e, p) == SnapOf(e, p).st
HasTcb(e, p) == StOf(e, p) \notin NoTcb
Fld(e, p, f, d) == IF HasTcb(e, p) THEN SnapOf(e, p)[f] ELSE d

\* at most 4 violations are kept per (property, clause) class; all are counted
Viol(t, e, prop, clause) ==
  IF Cardinality({b \in t.bad : b.clause = clause}) >= 4 THEN [t EXCEPT !.nbad = @ + 1]
  ELSE [t EXCEPT !.bad = @ \cup {[run |-> t.run, i |-> e.i, property |-> prop, clause |-> clause, ev |-> e.ev]},
                 !.nbad = @ + 1]

Check(t, e, ok, prop, clause) == IF ok THEN t ELSE Viol(t, e, prop, clause)

NoInj(t) == t.profile # "inject"

(***************************************************************************)
(* Acceptability of a segment for a conforming receiver (RFC 9293 3.10.7.4 *)
(* first check, table 6; 3.10.7.3 for SYN-SENT).  seq relative to RCV.NXT  *)
(* is logged as dseq for forged segments.                                  *)
(***************************************************************************)
Unacceptable(t, e, p) ==
  LET sg == e.seg
      st0 == t.st[p]
      seglen == sg.len + (IF Has(sg.ctl, SYN) THEN 1 ELSE 0) + (IF Has(sg.ctl, FIN) THEN 1 ELSE 0)
      d == sg.dseq
      wnd == 65535
  IN IF st0 = "SynSent" THEN ~Has(sg.ctl, SYN) /\ ~Has(sg.ctl, RST)
     ELSE IF st0 \in NoTcb THEN FALSE
     ELSE IF seglen = 0 THEN ~(0 <= d /\ d < wnd)
     ELSE ~((0 <= d /\ d < wnd) \/ (0 <= d + seglen - 1 /\ d + seglen - 1 < wnd))

(***************************************************************************)
(* Per-event steps.  Common bookkeeping first (states, pointers), then the *)
(* clauses of each property.                                               *)
(***************************************************************************)
Book(t, e) ==
  [t EXCEPT !.st = [p \in P |-> StOf(e, p)],
            !.intext = [p \in P |-> Fld(e, p, "intext", 0)],
            !.rnxt = [p \in P |-> Fld(e, p, "rnxt", t.rnxt[p])],
            !.nxt = [p \in P |-> Fld(e, p, "nxt", t.nxt[p])],
            !.una = [p \in P |-> Fld(e, p, "una", t.una[p])],
            !.heapN = [p \in P |-> Fld(e, p, "heapN", 0)],
            !.unread = [p \in P |-> IF t.st[p] \notin NoTcb /\ StOf(e, p) \in NoTcb
                                    THEN t.unread[p] + t.intext[p] ELSE t.unread[p]],
            !.incarn = [p \in P |-> IF t.st[p] \in NoTcb /\ StOf(e, p) \notin NoTcb
                                    THEN t.incarn[p] + 1 ELSE t.incarn[p]],
            !.events = @ + 1]

\* states of the side that did NOT act must not change
Frame(t, e, actor) ==
  LET q == Peer(actor) IN Check(t, e, StOf(e, q) = t.st[q], "C03", "a call on one endpoint changed the other endpoint's state")

DoReset(t, e) ==
  [Init0 EXCEPT !.run = e.run, !.profile = e.profile, !.bad = t.bad, !.nbad = t.nbad,
                !.events = t.events + 1, !.runs = t.runs + 1,
                !.st = [p \in P |-> IF (p = "A" /\ e.listenA) \/ (p = "B" /\ e.listenB) THEN "Listen" ELSE "Closed"]]

DoOpen(t, e) ==
  LET p == e.p
      t1 == Check(t, e, t.st[p] \in NoTcb /\ StOf(e, p) = "SynSent", "C03", "active open does not lead to SYN-SENT")
  IN Book(Frame(t1, e, p), e)

DoWrite(t, e) ==
  LET p == e.p
      acc == t.st[p] \in Writable
      t1 == Check(t, e, StOf(e, p) = t.st[p], "C03", "a write changed the connection state")
      t2 == IF acc THEN [t1 EXCEPT !.sent[p] = @ + e.n] ELSE t1
  IN Book(Frame(t2, e, p), e)

DoRead(t, e) ==
  LET p == e.p
      q == Peer(p)
      judged == NoInj(t) /\ t.incarn["A"] <= 1 /\ t.incarn["B"] <= 1   \* (the harness numbers one stream per endpoint)
      t1 == Check(t, e, ~judged \/ (e.mlen = e.len /\ e.off = t.got[p]), "C01",
                  "bytes handed to the reader are not the next bytes of the peer's stream")
      t2 == Check(t1, e, ~judged \/ t.got[p] + e.len <= t.sent[q], "C01",
                  "more bytes delivered than were submitted")
      \* bytes that arrived together with the FIN (the reader never had a chance) must still be readable
      t3 == Check(t2, e, ~(e.len = 0 /\ t.intext[p] > 0 /\ t.fresh[p] > 0), "C03",
                  "data that arrived in the same call as the FIN is withheld from the reader")
      t4 == Check(t3, e, StOf(e, p) = t.st[p], "C03", "a read changed the connection state")
      t5 == [t4 EXCEPT !.got[p] = @ + e.len, !.fresh[p] = IF e.len > 0 THEN 0 ELSE @]
  IN Book(Frame(t5, e, p), e)

DoClose(t, e) ==
  LET p == e.p
      a == t.st[p]
      b == StOf(e, p)
      t1 == Check(t, e, a = b \/ <<a, b>> \in CloseEdges, "C03", "close() took a transition that is not in the RFC 9293 state diagram")
      t2 == IF e.res = "Ok" /\ t.closeSent[p] < 0 THEN [t1 EXCEPT !.closeSent[p] = t.sent[p]] ELSE t1
  IN Book(Frame(t2, e, p), e)

DoTick(t, e) ==
  LET p == e.p
      a == t.st[p]
      b == StOf(e, p)
      t1 == Check(t, e, a = b \/ <<a, b>> \in TickEdges, "C03", "a timer step took a transition that is not in the RFC 9293 state diagram")
  IN Book(Frame(t1, e, p), e)

DoPump(t, e) ==
  LET p == e.p
      rst == \E k \in 1..Len(e.segs) : Has(e.segs[k].ctl, RST)
      \* the FIN of a close issued in CLOSE-WAIT is queued (and LAST-ACK entered) once the text before it is segmentized
      t1 == Check(t, e, StOf(e, p) = t.st[p] \/ (<<t.st[p], StOf(e, p)>> = <<"CloseWait", "LastAck">> /\ t.closeSent[p] >= 0),
                  "C03", "emitting segments changed the connection state")
      \* C03: without forged or old segments nobody resets
      t2 == Check(t1, e, ~(NoInj(t) /\ t.profile # "oldsyn" /\ rst), "C03", "an endpoint emitted RST although no segment was forged")
      \* C17: never new data beyond the right edge of the window the peer advertised
      t3a == Check(t2, e, e.maxend <= t.edge[p] \/ e.maxend < 0, "C17", "data emitted beyond the right edge of the advertised window")
      \* ... and NEW data stays inside SND.UNA + SND.WND of the endpoint itself (retransmissions of data sent before the
      \* window shrank are legitimate); while the SYN is unacknowledged the code counts text only (one position of slack)
      newdata == e.maxend > t.hi[p] /\ HasTcb(e, p) /\ t.incarn[p] <= 1
      t3 == Check(t3a, e, ~newdata \/ e.maxend <= SnapOf(e, p).una + SnapOf(e, p).wnd - 1 + (IF SnapOf(e, p).una = 0 THEN 1 ELSE 0), "C17",
                  "new data emitted beyond SND.UNA + SND.WND (the right edge of the window the peer last advertised)")
      \* C01: what is put on the wire is the submitted stream
      t4 == Check(t3, e, t.incarn[p] > 1 \/ (e.intact /\ e.maxend <= t.sent[p]), "C01", "an emitted segment does not carry the submitted bytes at its sequence position")
  IN Book(Frame([t4 EXCEPT !.hi[p] = IF e.maxend > @ THEN e.maxend ELSE @], e, p), e)

\* a segment (genuine or forged) arrives at endpoint p
DoArrive(t, e, forged) ==
  LET p == e.p
      sg == e.seg
      a == t.st[p]
      b == StOf(e, p)
      rst == Has(sg.ctl, RST)
      \* judged only when nothing was queued before: the call also processes segments queued earlier
      unacc == forged /\ Unacceptable(t, e, p) /\ t.heapN[p] = 0
      t1 == Check(t, e, a = b \/ ArriveOk(a, b) \/ (rst /\ ResetOk(a, b)) \/ (~NoInj(t) /\ ResetOk(a, b)), "C03",
                  "a segment arrival took a transition that is not in the RFC 9293 state diagram")
      \* C17: unacceptable segments change neither the state nor the deliverable data
      \* known finding K4: the code admits segments whose last octet is RCV.NXT-1 (draft-gont relaxed validation)
      seglen == sg.len + (IF Has(sg.ctl, SYN) THEN 1 ELSE 0) + (IF Has(sg.ctl, FIN) THEN 1 ELSE 0)
      relaxed == forged /\ a \notin NoTcb /\ a # "SynSent"
                 /\ (IF seglen = 0 THEN sg.dseq ELSE sg.dseq + seglen - 1) = -1
      t2 == Check(t1, e, ~unacc \/ (a = b /\ Fld(e, p, "intext", 0) = t.intext[p]
                                    /\ (a \in {"SynSent"} \/ a \in NoTcb \/ Fld(e, p, "rnxt", 0) = t.rnxt[p])), "C17",
                  IF relaxed
                  THEN "[K4] a segment ending at RCV.NXT-1 (outside the receive window, admitted by the relaxed validation) changed the connection state"
                  ELSE "a segment a conforming receiver must reject changed the connection state or the deliverable data")
      \* C17: the window the peer last advertised.  An in-sequence segment (SEG.SEQ = RCV.NXT, nothing queued before it)
      \* with an acceptable acknowledgment (SND.UNA =< SEG.ACK =< SND.NXT) always satisfies the update rule of RFC 9293
      \* 3.10.7.4 (SND.WL1 =< SEG.SEQ and SND.WL2 =< SEG.ACK), so SND.WND must be the window it carries afterwards.
      d0 == IF forged THEN sg.dseq ELSE sg.seq - t.rnxt[p]
      winupd == a \in {"Estab", "CloseWait"} /\ b \in {"Estab", "CloseWait", "FinWait1", "LastAck"} /\ t.heapN[p] = 0 /\ d0 = 0
                /\ Has(sg.ctl, ACK) /\ ~Has(sg.ctl, RST) /\ ~Has(sg.ctl, SYN)
                /\ t.una[p] <= Clamp(sg.ack) /\ Clamp(sg.ack) <= t.nxt[p]
      t2w == Check(t2, e, ~winupd \/ SnapOf(e, p).wnd = sg.wnd, "C17",
                   "an in-sequence segment with an acceptable acknowledgment did not set the send window to the window it advertises")
      neu == IF Has(sg.ctl, ACK) THEN Clamp(sg.ack) + sg.wnd - 1 ELSE IF Has(sg.ctl, SYN) THEN sg.wnd ELSE -1
      t3 == [t2w EXCEPT !.edge[p] = IF neu > @ THEN neu ELSE @,
                       !.tainted = @ \/ (forged /\ ~unacc),
                       !.fresh[p] = IF a \in Readable /\ b \notin Readable /\ b \notin NoTcb
                                       /\ Fld(e, p, "intext", 0) > t.intext[p]
                                    THEN Fld(e, p, "intext", 0) - t.intext[p] ELSE @]
  IN Book(Frame(t3, e, p), e)

DoPanic(t, e) ==
  LET prop == IF t.profile = "inject" THEN "C17" ELSE IF t.profile = "close" THEN "C03" ELSE "C01"
      t1 == Viol(t, e, prop, "the endpoint crashed (Rust panic) in " \o e.where \o " at " \o e.loc)
  IN [Book(t1, e) EXCEPT !.panicked = TRUE]

(***************************************************************************)
(* End of the loss-free phase: the liveness clauses, as state predicates   *)
(* on the final state of a run whose environment was fair for `rounds`     *)
(* retransmission timeouts.                                                *)
(***************************************************************************)
DoFairEnd(t, e) ==
  LET quiet == e.spin < 3 /\ e.wire[1] = 0 /\ e.wire[2] = 0
      judged == NoInj(t) /\ ~t.panicked
      allDelivered == \A p \in P : t.got[p] + t.unread[p] = t.sent[Peer(p)]
      drained == \A p \in P : ~HasTcb(e, p) \/ (SnapOf(e, p).retxN = 0 /\ SnapOf(e, p).text = 0 /\ SnapOf(e, p).heapN = 0)
      bothClosed == \A p \in P : t.closeSent[p] >= 0
      noneClosed == \A p \in P : t.closeSent[p] < 0
      released == \A p \in P : ~HasTcb(e, p)
      synced == \A p \in P : HasTcb(e, p) /\ StOf(e, p) \in Synced
      oneIncarn == \A p \in P : t.incarn[p] <= 1
      t1 == Check(t, e, ~judged \/ quiet, "C01", "endpoints keep transmitting on a loss-free network (never fall silent)")
      t2 == Check(t1, e, ~judged \/ ~oneIncarn \/ allDelivered, IF noneClosed THEN "C01" ELSE "C03",
                  "bytes submitted (before any close) were not all delivered after the loss-free phase")
      t3 == Check(t2, e, ~judged \/ ~quiet \/ drained, "C01", "unacknowledged or unsent data remains after the loss-free phase")
      t4 == Check(t3, e, ~judged \/ ~bothClosed \/ released, "C03", "both sides closed but an endpoint was not released (lingers)")
      t5 == Check(t4, e, ~judged \/ ~quiet \/ ~synced \/ ~oneIncarn
                         \/ (\A p \in P : SnapOf(e, p).rnxt = SnapOf(e, Peer(p)).nxt), "C03",
                  "synchronised and quiescent, but RCV.NXT differs from the peer's SND.NXT")
      t6 == Check(t5, e, ~judged \/ ~noneClosed \/ ~oneIncarn \/ (\A p \in P : StOf(e, p) = "Estab"), "C03",
                  "no close was issued but the connection did not end up ESTABLISHED on both sides")
  IN Book(t6, e)

\* at every step: a synchronised endpoint never expects more than the peer has sent, and the peer's
\* acknowledged point never exceeds what this endpoint has received
SyncClause(t, e) ==
  LET ok == \A p \in P :
              LET q == Peer(p) IN
              (HasTcb(e, p) /\ HasTcb(e, q) /\ StOf(e, p) \in Synced /\ StOf(e, q) \in Synced
                 /\ t.incarn[p] <= 1 /\ t.incarn[q] <= 1)
              => (SnapOf(e, p).rnxt <= SnapOf(e, q).nxt /\ SnapOf(e, q).una <= SnapOf(e, p).rnxt)
  IN Check(t, e, ~NoInj(t) \/ ok, "C03", "synchronised endpoints disagree on sequence numbers (RCV.NXT beyond the peer's SND.NXT, or SND.UNA beyond the peer's RCV.NXT)")

Step(t, e) ==
  IF e.ev = "reset" THEN DoReset(t, e)
  ELSE LET t1 ==
         CASE e.ev = "open"  -> DoOpen(t, e)
           [] e.ev = "write" -> DoWrite(t, e)
           [] e.ev = "read"  -> DoRead(t, e)
           [] e.ev = "close" -> DoClose(t, e)
           [] e.ev = "tick"  -> DoTick(t, e)
           [] e.ev = "pump"  -> DoPump(t, e)
           [] e.ev \in {"deliver", "deliver_dup"} -> DoArrive(t, e, FALSE)
           [] e.ev = "inject" -> DoArrive(t, e, TRUE)
           [] e.ev = "panic" -> DoPanic(t, e)
           [] e.ev = "fair_end" -> DoFairEnd(t, e)
           [] e.ev = "isn_mismatch" -> Book(Viol(t, e, "C12", "the same schedule under different initial sequence numbers gave different normalised behaviour"), e)
           [] OTHER -> Book(t, e)     \* skip, drop, fair_begin: no endpoint acted
       IN IF e.ev \in {"panic", "fair_end"} THEN t1 ELSE SyncClause(t1, e)

Init == l = 1 /\ s = Init0
Next == l <= Len(Rec) /\ s' = Step(s, Rec[l]) /\ l' = l + 1
Spec == Init /\ [][Next]_<<l, s>>

\* acceptance: every line consumed; violations are printed one per line as JSON
Accepted ==
  /\ PrintT(<<"TRACE-SUMMARY", ToJson([events |-> Len(Rec), consumed |-> TLCGet("stats").diameter - 1])>>)
  /\ TLCGet("stats").diameter - 1 = Len(Rec)

\* the last state is needed for the report; keep it in a TLC register
Report == TLCSet(1, [bad |-> s.bad, nbad |-> s.nbad, runs |-> s.runs, events |-> s.events])
Final ==
  LET r == TLCGet(1) IN
  /\ PrintT(<<"TRACE-RESULT", ToJson(r)>>)
  /\ Accepted
=============================================================================
