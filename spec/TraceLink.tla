------------------------------ MODULE TraceLink ------------------------------
(***************************************************************************)
(* C05 on real Networks / Pci taps under virtual time.  Per run the sends   *)
(* (result of send_pci) and receptions (demux on a tap) are collected; at   *)
(* the end of the run every clause of the property is evaluated:            *)
(* unicast to the owner only, broadcast to every other tap, payload and     *)
(* sender intact, exactly once, oversize refused and never on the wire,     *)
(* MACs distinct per network, not earlier than latency / throughput allow,  *)
(* transmissions on a throughput-limited network do not overlap.            *)
(***************************************************************************)
EXTENDS Integers, Sequences, FiniteSets, TLC, Json, IOUtils
Rec == ndJsonDeserialize(IOEnv.TRACE)
VARIABLES l, s
Init0 == [run |-> -1, nets |-> <<>>, taps |-> <<>>, sends |-> {}, rxs |-> {}, wires |-> {}, macs |-> {},
          bad |-> {}, nbad |-> 0, runs |-> 0, events |-> 0]
Viol(t, clause) ==
  IF Cardinality({x \in t.bad : x.clause = clause}) >= 3 THEN [t EXCEPT !.nbad = @ + 1]
  ELSE [t EXCEPT !.bad = @ \cup {[run |-> t.run, i |-> 0, clause |-> clause]}, !.nbad = @ + 1]
Chk(t, ok, clause) == IF ok THEN t ELSE Viol(t, clause)

\* all taps of the run: [m, slot, net, mac] with the MAC the code really assigned
Taps(t) == UNION {{[m |-> x.m, slot |-> k - 1, net |-> t.taps[x.m + 1][k].net, mac |-> x.macs[k]] : k \in 1..Len(x.macs)} : x \in t.macs}
TxUs(len, net) == IF net.bps = 0 THEN 0 ELSE ((len * 1000) \div (net.bps + net.bpsr)) * 1000

Judge(t) ==
  LET taps == Taps(t)
      NetOf(sd) == (CHOOSE x \in taps : x.m = sd.m /\ x.slot = sd.slot).net
      Cfg(n) == t.nets[n + 1]
      t1 == Chk(t, \A a, b \in taps : (a.net = b.net /\ a.mac = b.mac) => a = b, "two taps of one network share a hardware address")
      t2 == Chk(t1, \A sd \in t.sends : sd.ok = (sd.len <= Cfg(NetOf(sd)).mtu),
                "a frame within the MTU was refused, or a frame longer than the MTU was accepted")
      t3 == Chk(t2, \A n \in 0..(Len(t.nets) - 1) :
                      Cardinality({w \in t.wires : w.net = n}) = Cardinality({sd \in t.sends : sd.ok /\ NetOf(sd) = n}),
                "the number of frames on the wire differs from the number of accepted sends (a refused frame appeared, or one vanished)")
      Expect(sd) == LET n == NetOf(sd) IN
                    IF sd.dst >= 0 THEN {x \in taps : x.net = n /\ x.mac = sd.dst}
                    ELSE {x \in taps : x.net = n /\ ~(x.m = sd.m /\ x.slot = sd.slot)}
      Got(sd) == {r \in t.rxs : r.id = sd.id}
      Own(sd) == {r \in Got(sd) : r.m = sd.m /\ r.slot = sd.slot}
      t4 == Chk(t3, \A sd \in t.sends : ~sd.ok => Got(sd) = {}, "a refused frame was delivered")
      t5 == Chk(t4, \A sd \in t.sends : sd.ok =>
                      /\ \A x \in Expect(sd) : Cardinality({r \in Got(sd) : r.m = x.m /\ r.slot = x.slot}) = 1
                      /\ \A r \in Got(sd) : (\E x \in Expect(sd) : r.m = x.m /\ r.slot = x.slot)
                                            \/ (sd.dst < 0 /\ r \in Own(sd) /\ Cardinality(Own(sd)) = 1),
                "a frame did not reach exactly the taps it is addressed to (owner only / every other tap), exactly once")
      t6 == Chk(t5, \A sd \in t.sends : \A r \in Got(sd) : r.src = sd.mac /\ r.dst = sd.dst /\ r.len = sd.len /\ r.mtu = Cfg(NetOf(sd)).mtu,
                "payload, sender address or destination changed in transit")
      t7 == Chk(t6, \A sd \in t.sends : \A r \in Got(sd) :
                      r.t - sd.t >= Cfg(NetOf(sd)).lat + TxUs(sd.len, Cfg(NetOf(sd))),
                "a frame was delivered earlier than latency and throughput allow")
      \* constant latency and throughput: the transmissions of a network are serialised
      Const(n) == Cfg(n).latr = 0 /\ Cfg(n).bpsr = 0 /\ Cfg(n).bps > 0
      Start(sd, r) == r.t - Cfg(NetOf(sd)).lat - TxUs(sd.len, Cfg(NetOf(sd)))
      t8 == Chk(t7, \A s1, s2 \in t.sends : (s1.ok /\ s2.ok /\ s1.id # s2.id /\ NetOf(s1) = NetOf(s2) /\ Const(NetOf(s1))
                                            /\ Got(s1) # {} /\ Got(s2) # {}) =>
                      LET r1 == CHOOSE r \in Got(s1) : TRUE  r2 == CHOOSE r \in Got(s2) : TRUE
                          a1 == Start(s1, r1)  a2 == Start(s2, r2)
                          x1 == TxUs(s1.len, Cfg(NetOf(s1)))  x2 == TxUs(s2.len, Cfg(NetOf(s2))) IN
                      a1 + x1 <= a2 \/ a2 + x2 <= a1,
                "two transmissions overlap on a throughput-limited network")
  IN t8

Step(t, e) ==
  LET t0 == [t EXCEPT !.events = @ + 1] IN
  CASE e.ev = "reset" -> [t0 EXCEPT !.run = e.run, !.runs = @ + 1, !.nets = e.nets, !.taps = e.taps,
                                   !.sends = {}, !.rxs = {}, !.wires = {}, !.macs = {}]
    [] e.ev = "macs" -> [t0 EXCEPT !.macs = @ \cup {[m |-> e.m, macs |-> e.macs]}]
    [] e.ev = "send" -> [t0 EXCEPT !.sends = @ \cup {[m |-> e.m, slot |-> e.slot, mac |-> e.mac, dst |-> e.dst, len |-> e.len, id |-> e.id, ok |-> e.ok, t |-> e.t]}]
    [] e.ev = "rx" -> [t0 EXCEPT !.rxs = @ \cup {[m |-> e.m, slot |-> e.slot, src |-> e.src, dst |-> e.dst, len |-> e.len, id |-> e.id, mtu |-> e.mtu, t |-> e.t, i |-> e.i]}]
    [] e.ev = "wire" -> [t0 EXCEPT !.wires = @ \cup {[net |-> e.net, i |-> e.i]}]
    [] e.ev = "end" -> Judge(t0)
    [] e.ev = "panic" -> Viol(t0, "panic: " \o e.msg \o " at " \o e.loc)
    [] e.ev = "hang" -> Viol(t0, "the scenario never ended: the code under test kept producing events without bound or stopped making progress (" \o e.why \o ")")
    [] OTHER -> t0
Init == l = 1 /\ s = Init0
Next == l <= Len(Rec) /\ s' = Step(s, Rec[l]) /\ l' = l + 1
Spec == Init /\ [][Next]_<<l, s>>
Report == TLCSet(1, [bad |-> s.bad, nbad |-> s.nbad, runs |-> s.runs, events |-> s.events])
Final == /\ PrintT(<<"TRACE-RESULT", ToJson(TLCGet(1))>>)
         /\ PrintT(<<"TRACE-SUMMARY", ToJson([events |-> Len(Rec), consumed |-> TLCGet("stats").diameter - 1])>>)
=============================================================================
