SPECIFICATION Spec
CONSTANTS
  MaxLen = 72
  MtuLo = 28
  MtuHi = 52
INVARIANTS PartitionInv PassThrough
CHECK_DEADLOCK FALSE
