--------------------------- MODULE TraceLifecycle ---------------------------
(***************************************************************************)
(* C13 on real runs of run_internet_with_timeout (virtual time).           *)
(*   Barrier : nothing on any network and no demux to an application before*)
(*             every scripted application has finished its initialisation  *)
(*             (arrived at the barrier)                                    *)
(*   Once    : the run returns exactly once                                *)
(*   Status  : the status of the first shutdown request made before the    *)
(*             timeout, otherwise TimedOut                                 *)
(*   Bound   : not later than timeout + 1 s of simulated time              *)
(***************************************************************************)
EXTENDS Integers, Sequences, FiniteSets, TLC, Json, IOUtils
Rec == ndJsonDeserialize(IOEnv.TRACE)
VARIABLES l, s
Init0 == [run |-> -1, untimed |-> FALSE, capture |-> FALSE, scr |-> 0, timeout |-> 0, fwdarp |-> FALSE, arrived |-> 0, first |-> -100, firstT |-> 0, returns |-> 0,
          bad |-> {}, nbad |-> 0, runs |-> 0, events |-> 0]
Viol(t, e, clause) ==
  IF Cardinality({x \in t.bad : x.clause = clause}) >= 3 THEN [t EXCEPT !.nbad = @ + 1]
  ELSE [t EXCEPT !.bad = @ \cup {[run |-> t.run, i |-> e.i, clause |-> clause]}, !.nbad = @ + 1]
Step(t, e) ==
  LET t0 == [t EXCEPT !.events = @ + 1] IN
  CASE e.ev = "reset" -> [t0 EXCEPT !.run = e.run, !.runs = @ + 1, !.scr = e.scr, !.timeout = e.timeout, !.untimed = e.untimed, !.fwdarp = e.fwdarp, !.capture = e.capture,
                                   !.arrived = 0, !.first = -100, !.firstT = 0, !.returns = 0]
    [] e.ev = "arrive" -> [t0 EXCEPT !.arrived = @ + 1]
    [] e.ev \in {"wire", "demux"} ->
         IF t.arrived >= t.scr THEN t0
         ELSE Viol(t0, e, IF t.fwdarp
                          THEN "[K6] a frame appeared before every protocol had finished its initialisation (Forward opens its session, and ARP resolves, before the barrier)"
                          ELSE "a frame appeared on a network / reached an application before every protocol had finished its initialisation")
    [] e.ev = "shutreq" -> IF t.first = -100 /\ (t.untimed \/ e.t < t.timeout) THEN [t0 EXCEPT !.first = e.status, !.firstT = e.t] ELSE t0
    [] e.ev = "returned" ->
         LET t1 == IF t.returns > 0 THEN Viol(t0, e, "the run returned more than once") ELSE t0
             \* (a built-in Capture application requests status 7 when its message arrives; that request is not logged)
             \* every run of the driver has a timeout: its timer task holds the shutdown channel open, so a run in which nobody
             \* asked ends with TimedOut (never with the Exited of a channel that closed), even with no machine at all
             \* a run WITHOUT a timeout in which every protocol finishes and drops its handle: the first request, else Exited
             want == IF t.untimed THEN (IF t.first # -100 THEN {t.first} ELSE {-1})
                     ELSE (IF t.first # -100 THEN {t.first} ELSE {-2}) \cup (IF t.capture THEN {7} ELSE {})
             t2 == IF e.status \in want THEN t1
                   ELSE Viol(t1, e, "the run did not return the status of the first shutdown request made before the timeout (or TimedOut)")
             t3 == IF t.untimed \/ e.t <= t.timeout + 1000000 THEN t2 ELSE Viol(t2, e, "the run returned later than one second after its timeout")
             \* a request made before the timeout ends the run then, not at the timeout
             t4 == IF t.first # -100 /\ e.t > t.firstT + 1000000 /\ ~t.capture THEN Viol(t3, e, "the run ignored a shutdown request for more than a second") ELSE t3
         IN [t4 EXCEPT !.returns = @ + 1]
    [] e.ev = "never_returned" -> Viol(t0, e, "the run did not return within timeout + 1 s (nor within 60 s)")
    [] e.ev = "end" -> IF t.returns = 1 \/ t.returns = 0 THEN t0 ELSE t0
    [] e.ev = "hang" -> Viol(t0, e, "the run did not return: the scenario never ended (" \o e.why \o ")")
    [] e.ev = "panic" -> t0      \* an application that panics ends the process; C13 does not speak about it
    [] OTHER -> t0
Init == l = 1 /\ s = Init0
Next == l <= Len(Rec) /\ s' = Step(s, Rec[l]) /\ l' = l + 1
Spec == Init /\ [][Next]_<<l, s>>
Report == TLCSet(1, [bad |-> s.bad, nbad |-> s.nbad, runs |-> s.runs, events |-> s.events])
Final == /\ PrintT(<<"TRACE-RESULT", ToJson(TLCGet(1))>>)
         /\ PrintT(<<"TRACE-SUMMARY", ToJson([events |-> Len(Rec), consumed |-> TLCGet("stats").diameter - 1])>>)
=============================================================================
