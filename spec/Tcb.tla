-------------------------------- MODULE Tcb --------------------------------
(***************************************************************************)
(* Implementation-shaped specification (I-spec) of one Transmission Control *)
(* Block of Elvis (sim/elvis-core/src/protocols/tcp/tcb.rs), written as     *)
(* PURE OPERATORS on a TCB record: one operator per public call of the Rust *)
(* type, one sub-operator per step of `process_segment`.                    *)
(*                                                                          *)
(* Numbers.  Sequence numbers are relative: send-space fields (una, nxt,    *)
(* wl2, seg.seq of own segments, seg.ack of received segments) count from   *)
(* the endpoint's own ISS, receive-space fields (rnxt, wl1, seg.seq of      *)
(* received segments) from the peer's ISS.  The specification therefore     *)
(* does not mention an ISN at all, which is the content of C12(ii): the     *)
(* real code, run under any pair of ISNs, must produce these numbers after  *)
(* subtracting the ISNs.  Within 2^31 the code's circular comparisons are   *)
(* the integer comparisons used here (C12(i), module ModCmp).               *)
(*                                                                          *)
(* Units.  MSS and the window W are constants; with W = 3 units of 21845    *)
(* bytes the model is exactly the code with MTU = MSS*21845+50 and writes   *)
(* that are multiples of 21845 (DESIGN.md section 4).                       *)
(*                                                                          *)
(* Named deviations of the code from RFC 9293 reproduced here: D1..D15 in   *)
(* DESIGN.md appendix A (marked in comments below).                         *)
(***************************************************************************)
EXTENDS Integers, Sequences, FiniteSets

CONSTANTS MSS, W

Min(a, b) == IF a < b THEN a ELSE b
Max(a, b) == IF a > b THEN a ELSE b

Writable == {"SynSent", "SynRcvd", "Estab"}

(***************************************************************************)
(* Segments.  ctl is a subset of {"SYN","ACK","FIN","RST"} (PSH and URG are *)
(* never looked at by the TCB).  off is the stream position of the first    *)
(* payload byte (-1 for forged payload), len the payload length.            *)
(***************************************************************************)
MkSeg(seq, ack, ctl, wnd, len, off) ==
  [seq |-> seq, ack |-> ack, ctl |-> ctl, wnd |-> wnd, len |-> len, off |-> off]
SegLen(sg) == sg.len + (IF "SYN" \in sg.ctl THEN 1 ELSE 0) + (IF "FIN" \in sg.ctl THEN 1 ELSE 0)

\* mod_bounded(a, Lt, b, Lt, c): b strictly inside the circular interval (a, c)
Bounded(a, b, c) == IF a < c THEN a < b /\ b < c
                    ELSE IF a > c THEN b > a \/ b < c
                    ELSE FALSE

(***************************************************************************)
(* The TCB record                                                          *)
(***************************************************************************)
NewTcb(st, active, wnd, wl1, wl2, rnxt) ==
  [ st |-> st, active |-> active,
    una |-> 0, nxt |-> 1, wnd |-> wnd, wl1 |-> wl1, wl2 |-> wl2,   \* SND.*  (ISS = 0)
    rnxt |-> rnxt,                                                  \* RCV.NXT (RCV.WND = W, D6)
    text |-> 0, txoff |-> 0,       \* unsegmentized bytes, stream position of the first of them
    retx |-> <<>>,                 \* retransmission queue: [seg, needs]
    ones |-> <<>>,                 \* pure ACK / RST segments, sent once (D7)
    heap |-> <<>>,                 \* received segments not yet processed
    intext |-> <<>>,               \* readable text: <<off, len>> ranges
    finp |-> FALSE,                \* close() called, FIN waits for the text before it
    tw |-> FALSE ]                 \* 2*MSL timer armed

Enqueue(t, sg) == IF "SYN" \in sg.ctl \/ "FIN" \in sg.ctl
                  THEN [t EXCEPT !.retx = Append(@, [seg |-> sg, needs |-> TRUE])]
                  ELSE [t EXCEPT !.ones = Append(@, sg)]

AckSeg(t) == MkSeg(t.nxt, t.rnxt, {"ACK"}, W, 0, -1)
RstSeg(t, seq) == MkSeg(seq, 0, {"RST"}, W, 0, -1)

\* Tcb::open
Open == Enqueue(NewTcb("SynSent", TRUE, 0, 0, 0, 0), MkSeg(0, 0, {"SYN"}, W, 0, -1))

\* Tcb::send  (D9: accepted in SYN-SENT and SYN-RECEIVED too; ignored in the closing states)
Send(t, n) == IF t.st \in Writable THEN [t EXCEPT !.text = @ + n] ELSE t

\* Tcb::receive (after the F5 repair: buffered text is handed out in every state)
Receive(t) == [t |-> [t EXCEPT !.intext = <<>>], data |-> t.intext]

\* queue_fin: the FIN waits until the text before it has been segmentized (RFC 9293 3.10.4)
QueueFin(t) ==
  IF t.text > 0 THEN [t EXCEPT !.finp = TRUE]
  ELSE LET t1 == Enqueue([t EXCEPT !.finp = FALSE], MkSeg(t.nxt, t.rnxt, {"FIN", "ACK"}, W, 0, -1))
       IN [t1 EXCEPT !.nxt = @ + 1, !.st = IF @ = "CloseWait" THEN "LastAck" ELSE @]

\* Tcb::close
Close(t) ==
  IF t.st \in {"SynRcvd", "Estab"} THEN [t |-> [QueueFin(t) EXCEPT !.st = "FinWait1"], res |-> "Ok"]
  ELSE IF t.st = "CloseWait" THEN [t |-> QueueFin(t), res |-> "Ok"]
  ELSE [t |-> t, res |-> "Closing"]

\* Tcb::segments
RECURSIVE Queued(_)
Queued(q) == IF q = <<>> THEN 0 ELSE Head(q).seg.len + Queued(Tail(q))
RECURSIVE Segmentize(_)
Segmentize(t) ==
  LET bytes == Min(MSS, Min(Max(t.wnd - Queued(t.retx), 0), t.text)) IN
  IF bytes = 0 THEN t
  ELSE Segmentize([t EXCEPT !.text = @ - bytes, !.txoff = @ + bytes, !.nxt = @ + bytes,
                            !.retx = Append(@, [seg |-> MkSeg(t.nxt, t.rnxt, {"ACK"}, W, bytes, t.txoff),
                                                needs |-> TRUE])])
RECURSIVE Needing(_)
Needing(q) == IF q = <<>> THEN <<>>
              ELSE (IF Head(q).needs THEN <<Head(q).seg>> ELSE <<>>) \o Needing(Tail(q))
Segments(t) ==
  LET t1 == IF t.st \in {"SynSent", "SynRcvd", "Estab", "CloseWait", "FinWait1", "Closing"}
            THEN LET t2 == Segmentize(t) IN IF t2.finp THEN QueueFin(t2) ELSE t2
            ELSE t
      out == t1.ones \o Needing(t1.retx)
  IN [t |-> [t1 EXCEPT !.ones = <<>>,
                       !.retx = [i \in 1..Len(t1.retx) |-> [t1.retx[i] EXCEPT !.needs = FALSE]]],
      out |-> out]

\* Tcb::advance_time with delta > RTO (D8: one timer marks the whole queue)
RtoFire(t) == [t EXCEPT !.retx = [i \in 1..Len(t.retx) |-> [t.retx[i] EXCEPT !.needs = TRUE]]]

(***************************************************************************)
(* segment_arrives / process_segment                                       *)
(***************************************************************************)
InWin(t, n) == t.rnxt - 1 <= n /\ n < t.rnxt + W            \* D4: draft-gont window, includes RCV.NXT-1
SeqOk(t, sg) == LET sl == SegLen(sg) IN
                IF sl = 0 THEN InWin(t, sg.seq) ELSE InWin(t, sg.seq) \/ InWin(t, sg.seq + sl - 1)

RemoveAcked(t) == LET keep == {i \in 1..Len(t.retx) : t.una < t.retx[i].seg.seq + SegLen(t.retx[i].seg)}
                      F[i \in 0..Len(t.retx)] ==
                        IF i = 0 THEN <<>> ELSE IF i \in keep THEN Append(F[i-1], t.retx[i]) ELSE F[i-1]
                  IN [t EXCEPT !.retx = F[Len(t.retx)]]

FinAcked(t) == ~t.finp /\ t.nxt = t.una

R(t, res) == [t |-> t, res |-> res]          \* res = "Go": continue with the next step

\* ack_established_processing
\* (since the F22 repair a duplicate acknowledgment, SEG.ACK = SND.UNA, still takes part in the window update)
AckEstab(t, sg) ==
  IF sg.ack < t.una THEN R(t, "Go")
  ELSE IF sg.ack > t.nxt THEN R(Enqueue(t, AckSeg(t)), "InvalidAck")
  ELSE LET t1 == IF sg.ack # t.una THEN RemoveAcked([t EXCEPT !.una = sg.ack]) ELSE t
           upd == t.wl1 < sg.seq \/ (t.wl1 = sg.seq /\ t.wl2 <= sg.ack)
       IN R(IF upd THEN [t1 EXCEPT !.wnd = sg.wnd, !.wl1 = sg.seq, !.wl2 = sg.ack] ELSE t1, "Go")

StepSeq(t, sg) ==
  IF t.st = "SynSent" \/ SeqOk(t, sg) THEN R(t, "Go")       \* (CLOSING is checked too since the F17 repair)
  ELSE R(Enqueue(t, AckSeg(t)), "Discard")

StepAck(t, sg) ==
  IF "ACK" \notin sg.ctl THEN R(t, "Go")
  ELSE CASE t.st = "SynSent" ->                                        \* D2
              IF Bounded(t.nxt, sg.ack, t.una + 1)  \* mod_bounded(nxt, Lt, ack, Leq, iss): never true while nxt = iss+1
              THEN IF "RST" \in sg.ctl THEN R(t, "Discard")
                   ELSE R(Enqueue(t, RstSeg(t, sg.ack)), "InvalidAck")
              ELSE IF Bounded(t.una, sg.ack, t.nxt + 1)
              THEN IF "SYN" \in sg.ctl THEN R(RemoveAcked([t EXCEPT !.una = sg.ack]), "Go") ELSE R(t, "Go")
              ELSE R(Enqueue(t, RstSeg(t, sg.ack)), "InvalidAck")
         [] t.st = "SynRcvd" ->
              IF Bounded(t.una, sg.ack, t.nxt + 1)
              THEN AckEstab([t EXCEPT !.st = "Estab", !.wnd = sg.wnd, !.wl1 = sg.seq, !.wl2 = sg.ack], sg)
              ELSE R(Enqueue(t, RstSeg(t, sg.ack)), "Go")
         [] t.st \in {"Estab", "FinWait2", "CloseWait"} -> AckEstab(t, sg)
         [] t.st = "FinWait1" ->
              LET r == AckEstab(t, sg)
                  t1 == IF FinAcked(r.t) THEN [r.t EXCEPT !.st = "FinWait2"] ELSE r.t
              IN R(t1, r.res)
         [] t.st = "Closing" ->
              LET r == AckEstab(t, sg)
                  t1 == IF FinAcked(r.t) THEN [r.t EXCEPT !.st = "TimeWait", !.tw = TRUE] ELSE r.t
              IN R(t1, r.res)
         [] t.st = "LastAck" ->                                          \* D10: any ACK value is taken
              LET t1 == [t EXCEPT !.una = sg.ack] IN
              IF FinAcked(t1) THEN R(t1, "FinalizeClose") ELSE R(t1, "Go")
         [] t.st = "TimeWait" ->                                         \* after the F4 repair: only a FIN is re-acknowledged
              IF "FIN" \in sg.ctl
              THEN R(Enqueue([t EXCEPT !.tw = TRUE], MkSeg(t.nxt, sg.seq + 1, {"ACK"}, W, 0, -1)), "Go")
              ELSE R(t, "Go")

StepRst(t, sg) ==
  IF "RST" \notin sg.ctl THEN R(t, "Go")
  ELSE CASE t.st = "SynSent" -> R(t, "ConnectionReset")               \* or BlindReset: both delete the TCB
         [] t.st = "SynRcvd" -> R(t, IF t.active THEN "ConnectionRefused" ELSE "ReturnToListen")
         [] t.st \in {"Estab", "FinWait1", "FinWait2", "CloseWait"} -> R(t, "ConnectionReset")   \* D12
         [] OTHER -> R(t, "FinalizeClose")

\* after the F1 repair (RFC 9293 3.10.7.3, fifth)
StepSynSentDrop(t, sg) == IF t.st = "SynSent" /\ "SYN" \notin sg.ctl THEN R(t, "Discard") ELSE R(t, "Go")

StepSyn(t, sg) ==
  IF "SYN" \notin sg.ctl THEN R(t, "Go")
  ELSE IF t.st = "SynSent"
       THEN LET t1 == [t EXCEPT !.rnxt = sg.seq + 1, !.wnd = sg.wnd, !.wl1 = sg.seq, !.wl2 = sg.ack]
            IN IF t1.una > 0
               THEN R(Enqueue([t1 EXCEPT !.st = "Estab"], MkSeg(t1.nxt, t1.rnxt, {"ACK"}, W, 0, -1)), "Go")
               ELSE R(Enqueue([t1 EXCEPT !.st = "SynRcvd"], MkSeg(0, t1.rnxt, {"SYN", "ACK"}, W, 0, -1)), "Success")
       ELSE R(Enqueue(t, AckSeg(t)), "Discard")                          \* D3: challenge ACK only

RECURSIVE InLen(_)
InLen(q) == IF q = <<>> THEN 0 ELSE Head(q)[2] + InLen(Tail(q))

StepText(t, sg) ==
  IF sg.len = 0 \/ t.st \notin {"Estab", "SynSent", "SynRcvd", "FinWait1", "FinWait2"} THEN R(t, "Go")
  ELSE LET already == Min(t.rnxt - sg.seq + (IF "SYN" \in sg.ctl THEN 1 ELSE 0), sg.len)   \* D15: "+ syn"
           unrec == sg.len - already
           accept == Min(unrec, W - InLen(t.intext))
           rng == <<IF sg.off < 0 THEN -1 ELSE sg.off + already, accept>>
           t1 == [t EXCEPT !.rnxt = @ + accept,
                           !.intext = IF accept > 0 THEN Append(@, rng) ELSE @]
       IN R(Enqueue(t1, AckSeg(t1)), "Go")

StepFin(t, sg) ==
  IF "FIN" \notin sg.ctl THEN R(t, "Success")
  ELSE LET last == sg.seq + sg.len
           t1 == IF t.st # "SynSent" /\ (t.rnxt = last \/ t.rnxt = last + 1)
                 THEN LET t2 == [t EXCEPT !.rnxt = last + 1] IN Enqueue(t2, AckSeg(t2))
                 ELSE t
           t3 == CASE t1.st \in {"SynRcvd", "Estab"} -> [t1 EXCEPT !.st = "CloseWait"]
                   [] t1.st = "FinWait1" -> IF FinAcked(t1) THEN [t1 EXCEPT !.st = "TimeWait", !.tw = TRUE]
                                            ELSE [t1 EXCEPT !.st = "Closing"]
                   [] t1.st = "FinWait2" -> [t1 EXCEPT !.st = "TimeWait", !.tw = TRUE]
                   [] t1.st = "TimeWait" -> [t1 EXCEPT !.tw = TRUE]
                   [] OTHER -> t1
       IN R(t3, "Success")

Then(r, F(_, _), sg) == IF r.res = "Go" THEN F(r.t, sg) ELSE r

Process(t, sg) ==
  Then(Then(Then(Then(Then(Then(StepSeq(t, sg), StepAck, sg), StepRst, sg), StepSynSentDrop, sg),
                 StepSyn, sg), StepText, sg), StepFin, sg)

Deleting == {"ReturnToListen", "ConnectionReset", "ConnectionRefused", "FinalizeClose"}

\* index of the queued segment that is processed next: least sequence number, oldest first
MinIdx(h) == CHOOSE i \in 1..Len(h) : \A j \in 1..Len(h) : h[i].seq < h[j].seq \/ (h[i].seq = h[j].seq /\ i <= j)
RemoveAt(h, i) == SubSeq(h, 1, i - 1) \o SubSeq(h, i + 1, Len(h))

RECURSIVE Drain(_)
Drain(t) ==
  IF t.heap = <<>> THEN [t |-> t, res |-> "Ok"]
  ELSE LET i == MinIdx(t.heap)
           sg == t.heap[i]
       IN IF t.st # "SynSent" /\ sg.seq > t.rnxt THEN [t |-> t, res |-> "Ok"]        \* D1, D5
          ELSE LET r == Process([t EXCEPT !.heap = RemoveAt(@, i)], sg)
               IN IF r.res \in Deleting THEN [t |-> r.t, res |-> "Close"] ELSE Drain(r.t)

\* Tcb::segment_arrives
Arrives(t, sg) == Drain([t EXCEPT !.heap = Append(@, sg)])

\* segment_arrives_listen: [kind |-> "Tcb", t |-> ..] / [kind |-> "Response", seg |-> ..] / [kind |-> "None"]
ListenArrives(sg) ==
  IF "RST" \in sg.ctl THEN [kind |-> "None"]
  ELSE IF "ACK" \in sg.ctl THEN [kind |-> "Response", seg |-> MkSeg(sg.ack, 0, {"RST"}, 0, 0, -1)]
  ELSE IF "SYN" \in sg.ctl
  THEN LET t0 == NewTcb("SynRcvd", FALSE, sg.wnd, sg.seq, sg.ack, sg.seq + 1)
           t1 == Enqueue(t0, MkSeg(0, t0.rnxt, {"SYN", "ACK"}, W, 0, -1))
       IN [kind |-> "Tcb", t |-> [t1 EXCEPT !.heap = <<[sg EXCEPT !.ctl = @ \ {"SYN", "ACK"}]>>]]
  ELSE [kind |-> "None"]

\* segment_arrives_closed
ClosedArrives(sg) ==
  IF "RST" \in sg.ctl THEN [kind |-> "None"]
  ELSE IF "ACK" \in sg.ctl THEN [kind |-> "Response", seg |-> MkSeg(sg.ack, 0, {"RST"}, 0, 0, -1)]
  ELSE [kind |-> "Response", seg |-> MkSeg(0, sg.seq + sg.len, {"RST", "ACK"}, 0, 0, -1)]
=============================================================================
