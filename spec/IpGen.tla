-------------------------------- MODULE IpGen --------------------------------
(***************************************************************************)
(* C15.  The address generator of elvis/src/ip_generator.rs on a model     *)
(* address space 0..N-1 (the code: 2^32).                                  *)
(*   avail   the code's state: a set of inclusive ranges <<lo, hi>> that are*)
(*           never merged; block_range splits them                          *)
(*   held    property-level: blocks handed out and not returned            *)
(*   blocked property-level: addresses blocked by the user                 *)
(* fetch_net(m) is transcribed (first aligned block of each range);        *)
(* the invariants say what a caller relies on.                             *)
(***************************************************************************)
EXTENDS Integers, FiniteSets, TLC
CONSTANTS Wd, MaxOps, PoolKind      \* PoolKind: "range", "sub", "noends"
N == 2 ^ Wd
Addr == 0..(N - 1)
Size(m) == 2 ^ (Wd - m)
Id(a, m) == (a \div Size(m)) * Size(m)
Block(a, m) == Id(a, m)..(Id(a, m) + Size(m) - 1)

VARIABLES avail, held, blocked, pool, ops, last, returned
vars == <<avail, held, blocked, pool, ops, last, returned>>

Free == UNION {r[1]..r[2] : r \in avail}
\* block_range: drop contained ranges, split overlapping ones
BlockRange(av, lo, hi) ==
  LET keep == {r \in av : ~(lo <= r[1] /\ r[2] <= hi)}
      ov == {r \in keep : r[1] <= hi /\ r[2] >= lo}
      left == {<<r[1], lo - 1>> : r \in {x \in ov : lo > 0 /\ x[1] <= lo - 1}}
      right == {<<hi + 1, r[2]>> : r \in {x \in ov : hi < N - 1 /\ hi + 1 <= x[2]}}
  IN (keep \ ov) \cup left \cup right
\* next(ip, mask): the aligned block at or after ip (None on overflow)
NextNet(a, m) == IF Id(a, m) = a THEN a ELSE IF Id(a, m) + Size(m) > N - 1 THEN -1 ELSE Id(a, m) + Size(m)
\* fetch_net: ranges in BTreeSet order (by start, then end); first range whose first aligned block fits
Candidates(m) == {r \in avail : LET s == NextNet(r[1], m) IN s >= 0 /\ r[1] <= s /\ s + Size(m) - 1 <= r[2]}
FetchResult(m) ==
  IF Candidates(m) = {} THEN -1
  ELSE LET r == CHOOSE x \in Candidates(m) : \A y \in Candidates(m) : x[1] < y[1] \/ (x[1] = y[1] /\ x[2] <= y[2])
       IN NextNet(r[1], m)

Pools == CASE PoolKind = "range" -> {<<lo, hi>> : lo \in Addr, hi \in Addr}
           [] PoolKind = "sub" -> {<<Id(a, m), Id(a, m) + Size(m) - 1>> : a \in Addr, m \in 0..Wd}
           [] PoolKind = "noends" -> {<<Id(a, m) + 1, Id(a, m) + Size(m) - 2>> : a \in Addr, m \in 0..Wd}
Init == /\ \E p \in Pools : pool = p[1]..p[2] /\ avail = IF p[1] <= p[2] THEN {p} ELSE {}
        /\ held = {} /\ blocked = {} /\ ops = 0 /\ last = [kind |-> "none"] /\ returned = FALSE

Tick == ops < MaxOps /\ ops' = ops + 1
Fetch(m) ==
  /\ Tick
  /\ LET s == FetchResult(m) IN
     IF s < 0 THEN /\ last' = [kind |-> "none_left", m |-> m] /\ UNCHANGED <<avail, held>>
     ELSE /\ avail' = BlockRange(avail, s, s + Size(m) - 1)
          /\ held' = held \cup {<<s, m>>}
          /\ last' = [kind |-> "fetched", s |-> s, m |-> m, wasFree |-> (s..(s + Size(m) - 1)) \subseteq Free]
  /\ UNCHANGED <<blocked, pool, returned>>
Return(h) ==       \* return_subnet / return_ip of something that is held
  /\ Tick /\ h \in held
  /\ avail' = avail \cup {<<h[1], h[1] + Size(h[2]) - 1>>}
  /\ held' = held \ {h}
  /\ returned' = TRUE /\ last' = [kind |-> "returned"]
  /\ UNCHANGED <<blocked, pool>>
BlockNet(a, m) ==
  /\ Tick /\ \A h \in held : Block(h[1], h[2]) \cap Block(a, m) = {}
  /\ avail' = BlockRange(avail, Id(a, m), Id(a, m) + Size(m) - 1)
  /\ blocked' = blocked \cup Block(a, m)
  /\ last' = [kind |-> "blocked"]
  /\ UNCHANGED <<held, pool, returned>>
Next == (\E m \in 0..Wd : Fetch(m)) \/ (\E h \in held : Return(h)) \/ (\E a \in Addr, m \in 1..Wd : BlockNet(a, m))
Spec == Init /\ [][Next]_vars

\* C15 ---------------------------------------------------------------------
HeldSet == UNION {Block(h[1], h[2]) : h \in held}
InPool == HeldSet \subseteq pool \ blocked
Disjoint == /\ \A h1, h2 \in held : h1 # h2 => Block(h1[1], h1[2]) \cap Block(h2[1], h2[2]) = {}
            /\ HeldSet \cap Free = {}
FreeExact == Free = pool \ (HeldSet \cup blocked)                  \* nothing leaks, returned addresses are free again
FetchedWasFree == last.kind = "fetched" => last.wasFree /\ Id(last.s, last.m) = last.s
\* exhaustion is reported only when it is real: always for single addresses; for subnets as long as no
\* return has fragmented the ranges (the code does not coalesce returned ranges)
Exhaust == last.kind = "none_left" =>
             IF last.m = Wd THEN Free = {}
             ELSE returned \/ ~\E a \in Addr : Id(a, last.m) = a /\ Block(a, last.m) \subseteq Free
=============================================================================
