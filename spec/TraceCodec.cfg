SPECIFICATION TSpec
CONSTANT Checked = FALSE
CONSTRAINT Report
POSTCONDITION Final
CHECK_DEADLOCK FALSE
