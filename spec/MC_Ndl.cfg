SPECIFICATION Spec
INVARIANTS Emit SameShape
CHECK_DEADLOCK FALSE
