------------------------------ MODULE TcpLayer ------------------------------
(***************************************************************************)
(* The TCP protocol layer of one machine: tcp.rs (listen table, session    *)
(* table, demultiplexing of arriving segments) and the life of a session   *)
(* task (tcp_session.rs), above the TCB that Tcb.tla / TcpPair.tla         *)
(* specify.  Not one of the listed properties: growth of the specification *)
(* towards the glue between them.  One action per critical section:        *)
(*   Listen(app, ep)      Tcp::listen: insert, a later listen REPLACES the *)
(*                        earlier one (named deviation: no "in use" error) *)
(*   Open(app, L, R)      Tcp::open: refused if a session entry exists     *)
(*   Arrive(L, R, ctl)    Tcp::demux: session entry, else exact listener,  *)
(*                        else wildcard listener, else CLOSED reply        *)
(*   Establish(L, R)      the session task announces the connection once   *)
(*   Die(L, R)            the session task ends (reset, TIME-WAIT expiry); *)
(*                        the entry STAYS in the table (named deviation:   *)
(*                        later segments for these endpoints are swallowed *)
(*                        by the dead session, the endpoints cannot be     *)
(*                        opened again)                                    *)
(* The IPv4 layer below hands a datagram to TCP only if TCP listens on its *)
(* destination address or on 0.0.0.0 (Tcp::listen / Tcp::open register the *)
(* address with Ipv4); with a wildcard listener that includes addresses    *)
(* the machine does not own (named deviation, visible on a broadcast link).*)
(***************************************************************************)
EXTENDS Integers, FiniteSets, TLC
CONSTANTS Addrs,      \* destination addresses that can appear in arriving segments (own and foreign)
          Ports, Apps, Remotes
ANY == "any"
Ctl == {{"SYN"}, {"ACK"}, {"SYN", "ACK"}, {"RST"}, {"RST", "ACK"}, {}}
VARIABLES lst,        \* listen table: set of [ep, app], at most one per endpoint
          ipb,        \* addresses registered with the IPv4 layer
          sess,       \* session table: set of [L, R, app, alive, announced, passive]
          reply       \* the answer to the last arriving segment: "none", "rst", "rstack", "synack", "session", "dropped_ip"
vars == <<lst, ipb, sess, reply>>
Init == lst = {} /\ ipb = {} /\ sess = {} /\ reply = "none"
Listener(L) ==
  LET ex == {b \in lst : b.ep = L}
      wi == {b \in lst : b.ep = <<ANY, L[2]>>}
  IN IF ex # {} THEN (CHOOSE b \in ex : TRUE).app ELSE IF wi # {} THEN (CHOOSE b \in wi : TRUE).app ELSE -1
Listen(app, ep) ==
  /\ lst' = {b \in lst : b.ep # ep} \cup {[ep |-> ep, app |-> app]}
  /\ ipb' = ipb \cup {ep[1]}
  /\ UNCHANGED <<sess, reply>>
Open(app, L, R) ==
  /\ L[1] # ANY
  /\ IF \E x \in sess : x.L = L /\ x.R = R
     THEN reply' = "existing" /\ UNCHANGED <<sess, ipb>>
     ELSE /\ sess' = sess \cup {[L |-> L, R |-> R, app |-> app, alive |-> TRUE, announced |-> FALSE, passive |-> FALSE]}
          /\ ipb' = ipb \cup {L[1]}
          /\ reply' = "opened"
  /\ UNCHANGED lst
Arrive(L, R, ctl) ==
  /\ UNCHANGED <<lst, ipb>>
  /\ IF L[1] \notin ipb /\ ANY \notin ipb THEN reply' = "dropped_ip" /\ UNCHANGED sess
     ELSE IF \E x \in sess : x.L = L /\ x.R = R THEN reply' = "session" /\ UNCHANGED sess
     ELSE IF Listener(L) # -1
          THEN IF "RST" \in ctl THEN reply' = "none" /\ UNCHANGED sess
               ELSE IF "ACK" \in ctl THEN reply' = "rst" /\ UNCHANGED sess
               ELSE IF "SYN" \in ctl
                    THEN /\ sess' = sess \cup {[L |-> L, R |-> R, app |-> Listener(L), alive |-> TRUE, announced |-> FALSE, passive |-> TRUE]}
                         /\ reply' = "synack"
                    ELSE reply' = "none" /\ UNCHANGED sess
          ELSE /\ UNCHANGED sess
               /\ reply' = IF "RST" \in ctl THEN "none" ELSE IF "ACK" \in ctl THEN "rst" ELSE "rstack"
Establish(x) ==
  /\ x.alive /\ ~x.announced
  /\ sess' = (sess \ {x}) \cup {[x EXCEPT !.announced = TRUE]}
  /\ reply' = "none" /\ UNCHANGED <<lst, ipb>>
Die(x) ==
  /\ x.alive
  /\ sess' = (sess \ {x}) \cup {[x EXCEPT !.alive = FALSE]}
  /\ reply' = "none" /\ UNCHANGED <<lst, ipb>>
Eps == (Addrs \cup {ANY}) \X Ports
Next ==
  \/ \E a \in Apps, e \in Eps : Listen(a, e)
  \/ \E a \in Apps, ad \in Addrs, p \in Ports, r \in Remotes : Open(a, <<ad, p>>, r)
  \/ \E ad \in Addrs, p \in Ports, r \in Remotes, c \in Ctl : Arrive(<<ad, p>>, r, c)
  \/ \E x \in sess : Establish(x) \/ Die(x)
Spec == Init /\ [][Next]_vars
\* ------------------------------------------------------------------ what the layer guarantees
OneListenerPerEndpoint == \A b1, b2 \in lst : b1.ep = b2.ep => b1 = b2
OneSessionPerEndpoints == \A x, y \in sess : (x.L = y.L /\ x.R = y.R) => x = y
\* a session is never created for endpoints whose local address TCP does not listen on (exactly or by wildcard)
PassiveNeedsAddress == \A x \in sess : x.passive => (x.L[1] \in ipb \/ ANY \in ipb)
\* a passive session belongs to the application that owned the listener when the SYN arrived: it keeps that
\* application when the listener is replaced later (action property)
KeepsOwner == [][\A x \in sess : \A y \in sess' : (x.L = y.L /\ x.R = y.R) => x.app = y.app]_vars
\* entries are never removed: endpoints once used cannot be opened again (named deviation, see above)
NeverRemoved == [][\A x \in sess : \E y \in sess' : x.L = y.L /\ x.R = y.R]_vars
\* a new passive session is owned by the exact listener if there is one
ExactWins == [][\A y \in sess' : (y.passive /\ ~\E x \in sess : x.L = y.L /\ x.R = y.R) =>
                   LET ex == {b \in lst : b.ep = y.L} IN
                   IF ex # {} THEN \E b \in ex : b.app = y.app ELSE \E b \in lst : b.ep = <<ANY, y.L[2]>> /\ b.app = y.app]_vars
\* a segment never changes a session other than the one with its endpoints (isolation)
Isolation == [][\A x \in sess : x \in sess' \/ \E y \in sess' : y.L = x.L /\ y.R = x.R]_vars
=============================================================================
