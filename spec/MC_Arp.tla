------------------------------- MODULE MC_Arp -------------------------------
EXTENDS Arp
OwnerA == [ip \in {"i1", "i2", "i3", "ix"} |-> CASE ip = "i1" -> "m1" [] ip = "i2" -> "m2" [] ip = "i3" -> "m3" [] OTHER -> "nobody"]
NoSub == [m \in {"m1", "m2", "m3"} |-> [set |-> FALSE, inside |-> {}, gw |-> "i1"]]
SubGw == [m \in {"m1", "m2", "m3"} |-> IF m = "m1" THEN [set |-> TRUE, inside |-> {"i1", "i2"}, gw |-> "i2"] ELSE [set |-> FALSE, inside |-> {}, gw |-> "i1"]]
CallsA == {<<"m1", "i2">>, <<"m1", "ix">>, <<"m3", "i2">>}
CallsB == {<<"m1", "i3">>, <<"m1", "i2">>, <<"m2", "i1">>}
CallsC == {<<"m1", "i2">>, <<"m1", "i3">>}
=============================================================================
