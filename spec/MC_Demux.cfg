SPECIFICATION Spec
CONSTANTS
  Apps = {"x", "y", "z"}
  Addrs = {"A1", "A2", "ANY", "BCAST"}
  Ports = {1, 2}
  MaxBinds = 4
INVARIANTS Isolation NeverWrongPort BindOnce
CHECK_DEADLOCK FALSE
