---------------------------- MODULE TraceMessage ----------------------------
(***************************************************************************)
(* C07 on the real Message type: every recorded operation is applied to a  *)
(* pool of plain byte sequences (the property-level semantics of           *)
(* Message.tla) and every observable of EVERY pool member after the        *)
(* operation (len, iter, to_vec, Display, ==) is compared.                 *)
(***************************************************************************)
EXTENDS Integers, Sequences, FiniteSets, TLC, Json, IOUtils
Rec == ndJsonDeserialize(IOEnv.TRACE)
VARIABLES l, s
Init0 == [run |-> -1, pool |-> <<>>, bad |-> {}, nbad |-> 0, runs |-> 0, events |-> 0]
\* total version of SubSeq: after a reported mismatch the pool follows the bytes the code showed, which need not
\* be as long as the (cached) len() the driver chose its arguments from
Sub(q, a, b) == LET lo == IF a < 1 THEN 1 ELSE a
                    hi == IF b > Len(q) THEN Len(q) ELSE b
                IN IF lo > hi THEN <<>> ELSE SubSeq(q, lo, hi)
Apply(pool, e) ==
  CASE e.op = "new" -> Append(pool, e.bytes)
    [] e.op = "header" -> [pool EXCEPT ![e.m] = e.bytes \o @]
    [] e.op = "concat" -> [pool EXCEPT ![e.m] = @ \o pool[e.o]]
    [] e.op = "clone" -> Append(pool, pool[e.m])
    [] e.op = "slice" -> [pool EXCEPT ![e.m] = Sub(@, e.start + 1, IF e.n < 0 THEN Len(@) ELSE e.start + e.n)]
    [] e.op = "cut" -> Append([pool EXCEPT ![e.m] = Sub(@, e.n + 1, Len(@))], Sub(pool[e.m], 1, e.n))
    [] e.op = "remove_front" -> [pool EXCEPT ![e.m] = Sub(@, e.n + 1, Len(@))]
Why(p, o) ==
  IF Len(o.vecs) # Len(p) THEN "pool size"
  ELSE IF \E i \in 1..Len(p) : o.vecs[i] # p[i] THEN "to_vec differs from the byte-vector semantics (possibly of a message that was not operated on)"
  ELSE IF \E i \in 1..Len(p) : o.lens[i] # Len(p[i]) THEN "len() differs"
  ELSE IF \E i \in 1..Len(p) : ~o.iter_ok[i] THEN "iter()/is_empty() disagree with to_vec"
  ELSE IF \E i \in 1..Len(p) : ~o.disp_ok[i] THEN "Display differs"
  ELSE IF \E i, j \in 1..Len(p) : o.eq[i][j] # (p[i] = p[j]) THEN "== differs from byte equality"
  ELSE ""
Step(t, e) ==
  IF e.ev = "reset" THEN [t EXCEPT !.run = e.run, !.pool = <<>>, !.runs = @ + 1, !.events = @ + 1]
  ELSE LET p == Apply(t.pool, e)
           w == Why(p, e.obs)
           \* follow the code's observed bytes so that one mismatch is reported once
           t1 == [t EXCEPT !.pool = e.obs.vecs, !.events = @ + 1]
       IN IF w = "" THEN t1
          ELSE IF Cardinality(t.bad) >= 8 THEN [t1 EXCEPT !.nbad = @ + 1]
          ELSE [t1 EXCEPT !.nbad = @ + 1, !.bad = @ \cup {[run |-> t.run, i |-> e.i, clause |-> w, op |-> e.op]}]
Init == l = 1 /\ s = Init0
Next == l <= Len(Rec) /\ s' = Step(s, Rec[l]) /\ l' = l + 1
Spec == Init /\ [][Next]_<<l, s>>
Report == TLCSet(1, [bad |-> s.bad, nbad |-> s.nbad, runs |-> s.runs, events |-> s.events])
Final == /\ PrintT(<<"TRACE-RESULT", ToJson(TLCGet(1))>>)
         /\ PrintT(<<"TRACE-SUMMARY", ToJson([events |-> Len(Rec), consumed |-> TLCGet("stats").diameter - 1])>>)
=============================================================================
