---------------------------- MODULE MC_Lifecycle ----------------------------
EXTENDS Lifecycle
P4 == {"a", "b", "c", "d"}
BehA == [p \in P4 |-> CASE p = "a" -> "req" [] p = "b" -> "req" [] p = "c" -> "frame" [] OTHER -> "hang"]
BehB == [p \in P4 |-> CASE p = "a" -> "req" [] p = "b" -> "req" [] p = "c" -> "req" [] OTHER -> "finish"]
BehC == [p \in P4 |-> CASE p = "a" -> "frame" [] p = "b" -> "finish" [] p = "c" -> "finish" [] OTHER -> "finish"]
BehD == [p \in P4 |-> CASE p = "a" -> "early" [] p = "b" -> "never" [] p = "c" -> "req" [] OTHER -> "frame"]
BehE == [p \in P4 |-> CASE p = "a" -> "early" [] p = "b" -> "early" [] p = "c" -> "finish" [] OTHER -> "hang"]
IniA == [p \in P4 |-> CASE p = "a" -> 0 [] p = "b" -> 1 [] p = "c" -> 0 [] OTHER -> 2]
ReqA == [p \in P4 |-> CASE p = "a" -> 2 [] p = "b" -> 2 [] p = "c" -> 0 [] OTHER -> 0]
ReqB == [p \in P4 |-> CASE p = "a" -> 4 [] p = "b" -> 3 [] p = "c" -> 3 [] OTHER -> 0]
=============================================================================
