SPECIFICATION Spec
CONSTANTS
  MSS = 1
  W = 2
  MaxBytes <- MB32
  MaxWrite = 3
  Drops = 1
  Dups = 0
  Rtos = 1
  MayClose <- CloseNone
  SimOpen = FALSE
  Injects = 0
  OldSyn = FALSE
  HistLen = 0
VIEW View
INVARIANTS PrefixInv WireInv WindowInv NoResetInv SyncInv QuiescentInv
PROPERTY EdgeProp
CHECK_DEADLOCK FALSE
CONSTRAINT Bound
