------------------------------ MODULE TcpPair ------------------------------
(***************************************************************************)
(* Two Elvis TCBs (module Tcb), the wire between them, the two applications*)
(* and the timers: every interleaving of application writes / reads /      *)
(* closes, segment emission (Pump = Tcb::segments, the only output),       *)
(* per-segment network choices (deliver any in-flight segment next, drop   *)
(* it, deliver it twice), retransmission and 2*MSL timer expirations, and  *)
(* optionally forged segments from the peer address (C17) and an old       *)
(* duplicate SYN of an earlier incarnation (C03, RFC 9293 figure 8).       *)
(*                                                                         *)
(* The structure follows tcp_session.rs: arrivals, writes, the timer and   *)
(* `segments()` / `receive()` are separate steps that the session loop     *)
(* performs in some order; here they are independently enabled actions.    *)
(***************************************************************************)
EXTENDS Tcb, TLC, Json

CONSTANTS
  U,             \* bytes per data unit (control bits occupy 1 sequence number, data k*U: U >= 5 keeps the
                 \* order of all quantities k*U + c, |c| <= 2, the same as with the real unit of 21845 bytes)
  MaxBytes,      \* [P -> Nat]  bytes (units) each application may submit
  MaxWrite,      \* largest single write
  Drops, Dups,   \* network fault budgets
  Rtos,          \* retransmission-timer expirations (bounds the exploration, not the design)
  MayClose,      \* [P -> BOOLEAN]
  SimOpen,       \* BOOLEAN: both sides open actively (figure 7) instead of A active / B passive
  Injects,       \* number of forged segments (C17)
  OldSyn,        \* BOOLEAN: an old duplicate SYN (figure 8) is in the network from the start
  HistLen        \* length of the recorded schedule (0 = no history)

P == {"A", "B"}
Peer(p) == IF p = "A" THEN "B" ELSE "A"
Nil == [st |-> "None"]

VARIABLES tcb, listen, opened, wire, sent, got, okstream, closed, budget, edge, maxend, hist

vars == <<tcb, listen, opened, wire, sent, got, okstream, closed, budget, edge, maxend, hist>>
View == <<tcb, listen, opened, wire, sent, got, okstream, closed, budget, edge, maxend>>

Has(p) == tcb[p] # Nil
St(p) == IF Has(p) THEN tcb[p].st ELSE IF listen[p] THEN "Listen" ELSE "Closed"

CtlBits(c) == (IF "FIN" \in c THEN 1 ELSE 0) + (IF "SYN" \in c THEN 2 ELSE 0)
            + (IF "RST" \in c THEN 4 ELSE 0) + (IF "ACK" \in c THEN 16 ELSE 0)
SegJ(sg) == [seq |-> sg.seq, ack |-> IF "ACK" \in sg.ctl THEN sg.ack ELSE 0, ctl |-> CtlBits(sg.ctl), len |-> sg.len]

\* projection of an endpoint that the replay leg compares with the real Tcb after every step
Proj(t, l) == IF t = Nil THEN [st |-> IF l THEN "Listen" ELSE "Closed"]
              ELSE [st |-> t.st, una |-> t.una, nxt |-> t.nxt, wnd |-> t.wnd, rnxt |-> t.rnxt, text |-> t.text,
                    retxN |-> Len(t.retx), retxNeeds |-> Cardinality({i \in 1..Len(t.retx) : t.retx[i].needs}),
                    onesN |-> Len(t.ones), heapN |-> Len(t.heap), intext |-> InLen(t.intext), finp |-> t.finp]
Log(rec) == hist' = IF Len(hist) < HistLen
                    THEN Append(hist, rec @@ [exp |-> [p \in P |-> Proj(tcb'[p], listen'[p])]])
                    ELSE hist

Init ==
  /\ tcb = [p \in P |-> Nil]
  /\ listen = [p \in P |-> p = "B" /\ ~SimOpen]
  /\ wire = [p \in P |-> IF OldSyn /\ p = "A" THEN {MkSeg(-10, 0, {"SYN"}, W, 0, -1)} ELSE {}]   \* wire[p]: sent by p
  /\ sent = [p \in P |-> 0]
  /\ got = [p \in P |-> 0]
  /\ okstream = TRUE
  /\ closed = [p \in P |-> FALSE]
  /\ budget = [drops |-> Drops, dups |-> Dups, rtos |-> Rtos, inj |-> Injects]
  /\ edge = [p \in P |-> -1]
  /\ maxend = [p \in P |-> 0]
  /\ hist = <<>>
  /\ opened = [p \in P |-> FALSE]

ActiveOpen(p) ==
  /\ ~Has(p) /\ (p = "A" \/ SimOpen) /\ ~opened[p] /\ ~listen[p]
  /\ tcb' = [tcb EXCEPT ![p] = Open]
  /\ opened' = [opened EXCEPT ![p] = TRUE]
  /\ UNCHANGED <<listen, wire, sent, got, okstream, closed, budget, edge, maxend>>
  /\ Log([a |-> "open", p |-> p])

AppWrite(p, n) ==
  /\ Has(p) /\ tcb[p].st \in Writable /\ sent[p] + n <= MaxBytes[p] * U
  /\ tcb' = [tcb EXCEPT ![p] = Send(@, n)]
  /\ sent' = [sent EXCEPT ![p] = @ + n]
  /\ UNCHANGED <<listen, opened, wire, got, okstream, closed, budget, edge, maxend>>
  /\ Log([a |-> "write", p |-> p, n |-> n])

\* ranges handed to the reader must be the next positions of the peer's stream
RECURSIVE Contig(_, _)
Contig(q, from) == IF q = <<>> THEN TRUE
                   ELSE Head(q)[1] = from /\ Contig(Tail(q), from + Head(q)[2])
AppRead(p) ==
  /\ Has(p) /\ tcb[p].intext # <<>>
  /\ LET r == Receive(tcb[p]) IN
     /\ tcb' = [tcb EXCEPT ![p] = r.t]
     /\ got' = [got EXCEPT ![p] = @ + InLen(r.data)]
     /\ okstream' = (okstream /\ Contig(r.data, got[p]) /\ got[p] + InLen(r.data) <= sent[Peer(p)])
  /\ UNCHANGED <<listen, opened, wire, sent, closed, budget, edge, maxend>>
  /\ Log([a |-> "read", p |-> p])

AppClose(p) ==
  /\ Has(p) /\ MayClose[p] /\ ~closed[p]
  /\ LET r == Close(tcb[p]) IN
     /\ r.res = "Ok"
     /\ tcb' = [tcb EXCEPT ![p] = r.t]
  /\ closed' = [closed EXCEPT ![p] = TRUE]
  /\ UNCHANGED <<listen, opened, wire, sent, got, okstream, budget, edge, maxend>>
  /\ Log([a |-> "close", p |-> p])

\* greatest stream position (exclusive) carried by a sequence of segments
RECURSIVE MaxEnd(_)
MaxEnd(q) == IF q = <<>> THEN 0
             ELSE Max(IF Head(q).len > 0 THEN Head(q).off + Head(q).len ELSE 0, MaxEnd(Tail(q)))
Range(q) == {q[i] : i \in 1..Len(q)}

Pump(p) ==
  /\ Has(p)
  /\ LET r == Segments(tcb[p]) IN
     /\ (r.out # <<>> \/ r.t # tcb[p])
     /\ tcb' = [tcb EXCEPT ![p] = r.t]
     /\ wire' = [wire EXCEPT ![p] = @ \cup Range(r.out)]
     /\ maxend' = [maxend EXCEPT ![p] = Max(@, MaxEnd(r.out))]
  /\ UNCHANGED <<listen, opened, sent, got, okstream, closed, budget, edge>>
  /\ Log([a |-> "pump", p |-> p])

\* segment sg (sent by Peer(p) or forged) reaches endpoint p: new TCB (or Nil), new listen flag, responses
ArriveRes(p, sg) ==
  IF Has(p) THEN
    LET r == Arrives(tcb[p], sg) IN
    IF r.res = "Close" THEN [t |-> Nil, l |-> (tcb[p].st = "SynRcvd" /\ ~tcb[p].active), resp |-> {}]
    ELSE [t |-> r.t, l |-> listen[p], resp |-> {}]
  ELSE LET r == IF listen[p] THEN ListenArrives(sg) ELSE ClosedArrives(sg) IN
    CASE r.kind = "Tcb" -> [t |-> r.t, l |-> FALSE, resp |-> {}]
      [] r.kind = "Response" -> [t |-> Nil, l |-> listen[p], resp |-> {r.seg}]
      [] OTHER -> [t |-> Nil, l |-> listen[p], resp |-> {}]
Adv(sg) == IF "ACK" \in sg.ctl THEN sg.ack + sg.wnd - 1 ELSE IF "SYN" \in sg.ctl THEN sg.wnd ELSE -1

Deliver(p, sg, keep) ==      \* p receives; with keep (duplication) a copy stays in the network
  /\ sg \in wire[Peer(p)]
  /\ keep => budget.dups > 0
  /\ SimOpen => opened[p]          \* simultaneous open: both applications have issued their OPEN
  /\ LET r == ArriveRes(p, sg) IN
     /\ tcb' = [tcb EXCEPT ![p] = r.t]
     /\ listen' = [listen EXCEPT ![p] = r.l]
     \* When p's TCB is deleted, text that this incarnation still has in the network can no longer be mistaken for text
     \* of p's next incarnation: the model numbers every incarnation from the same relative ISS, the code (and RFC 9293
     \* 3.4.1) gives successive incarnations initial sequence numbers far enough apart.  Control segments stay.
     /\ wire' = [wire EXCEPT ![Peer(p)] = IF keep THEN @ ELSE @ \ {sg},
                             ![p] = (IF Has(p) /\ r.t = Nil THEN {s \in @ : s.len = 0} ELSE @) \cup r.resp]
  /\ edge' = [edge EXCEPT ![p] = Max(@, Adv(sg))]
  /\ budget' = IF keep THEN [budget EXCEPT !.dups = @ - 1] ELSE budget
  /\ UNCHANGED <<opened, sent, got, okstream, closed, maxend>>
  /\ Log([a |-> "deliver", d |-> IF p = "B" THEN "AB" ELSE "BA", seg |-> SegJ(sg), keep |-> keep])

Drop(p, sg) ==
  /\ sg \in wire[p] /\ budget.drops > 0
  /\ wire' = [wire EXCEPT ![p] = @ \ {sg}]
  /\ budget' = [budget EXCEPT !.drops = @ - 1]
  /\ UNCHANGED <<tcb, listen, opened, sent, got, okstream, closed, edge, maxend>>
  /\ Log([a |-> "drop", d |-> IF p = "A" THEN "AB" ELSE "BA", seg |-> SegJ(sg)])

\* the session loop calls segments() after every batch of instructions and advances the clock only when idle
PumpIdle(p) == LET r == Segments(tcb[p]) IN r.out = <<>> /\ r.t = tcb[p]

RtoExpire(p) ==
  /\ Has(p) /\ budget.rtos > 0 /\ tcb[p].retx # <<>> /\ PumpIdle(p)
  /\ \E i \in 1..Len(tcb[p].retx) : ~tcb[p].retx[i].needs
  /\ tcb' = [tcb EXCEPT ![p] = RtoFire(@)]
  /\ budget' = [budget EXCEPT !.rtos = @ - 1]
  /\ UNCHANGED <<listen, opened, wire, sent, got, okstream, closed, edge, maxend>>
  /\ Log([a |-> "tick", p |-> p, ms |-> 101])

\* the 2*MSL timer (2 s) outlasts the network (MSL assumption) and every retransmission (RTO 0.1 s) of the
\* fault budgets explored here: nothing is in flight, nothing is waiting to be emitted or retransmitted
TimeWaitExpire(p) ==
  /\ Has(p) /\ tcb[p].tw
  /\ wire["A"] = {} /\ wire["B"] = {}
  /\ \A q \in P : Has(q) => (PumpIdle(q) /\ tcb[q].retx = <<>>)
  /\ tcb' = [tcb EXCEPT ![p] = Nil]
  /\ UNCHANGED <<listen, opened, wire, sent, got, okstream, closed, budget, edge, maxend>>
  /\ Log([a |-> "tick", p |-> p, ms |-> 2001])

(***************************************************************************)
(* C17: forged segments from the peer's address.  seq is chosen around the *)
(* edges of the receive window, ack around SND.UNA / SND.NXT.              *)
(***************************************************************************)
CtlSets == SUBSET {"SYN", "ACK", "FIN", "RST"}
Inject(p, dseq, dack, ctl, wnd, len) ==
  /\ budget.inj > 0 /\ Has(p)
  /\ LET sg == MkSeg(tcb[p].rnxt + dseq, tcb[p].una + dack, ctl, wnd, len, -1)
         r == ArriveRes(p, sg) IN
     /\ tcb' = [tcb EXCEPT ![p] = r.t]
     /\ listen' = [listen EXCEPT ![p] = r.l]
     /\ wire' = [wire EXCEPT ![p] = @ \cup r.resp]
     /\ edge' = [edge EXCEPT ![p] = Max(@, Adv(sg))]
  /\ budget' = [budget EXCEPT !.inj = @ - 1]
  /\ UNCHANGED <<opened, sent, got, okstream, closed, maxend>>
  /\ Log([a |-> "inject", p |-> p, dseq |-> dseq, dack |-> dack, ctl |-> CtlBits(ctl), wnd |-> wnd, len |-> len])

Next ==
  \/ \E p \in P : ActiveOpen(p) \/ AppRead(p) \/ AppClose(p) \/ Pump(p) \/ RtoExpire(p) \/ TimeWaitExpire(p)
  \/ \E p \in P, k \in 1..MaxWrite : AppWrite(p, k * U)
  \/ \E p \in P : \E sg \in wire[Peer(p)] : Deliver(p, sg, FALSE) \/ Deliver(p, sg, TRUE)
  \/ \E p \in P : \E sg \in wire[p] : Drop(p, sg)
  \/ \E p \in P, dseq \in {-2, -1, 0, 1, W - 1, W, W + 1}, dack \in {-1, 0, 1, 2},
        ctl \in CtlSets, wnd \in {0, 1, W}, len \in {0, 1, U} : Inject(p, dseq, dack, ctl, wnd, len)

Spec == Init /\ [][Next]_vars

(***************************************************************************)
(* Properties                                                              *)
(***************************************************************************)
\* C01: what the reader was given is a prefix of what the writer submitted, in order, exactly once
PrefixInv == Injects > 0 \/ (okstream /\ \A p \in P : got[p] <= sent[Peer(p)])

\* C01/C03: the wire only carries bytes that were submitted, at their sequence position
WireInv == \A p \in P : \A sg \in wire[p] : sg.len > 0 => (sg.off = sg.seq - 1 /\ sg.off + sg.len <= sent[p])

\* C17: never data beyond the right edge of the window the peer advertised
WindowInv == \A p \in P : maxend[p] <= Max(edge[p], 0)

\* C03: only transitions of the RFC 9293 state diagram (by cause; an arrival may take several)
ArriveEdges ==
  { <<"Listen","SynRcvd">>, <<"SynSent","SynRcvd">>, <<"SynSent","Estab">>,
    <<"SynRcvd","Estab">>, <<"SynRcvd","CloseWait">>, <<"Estab","CloseWait">>,
    <<"FinWait1","FinWait2">>, <<"FinWait1","Closing">>, <<"FinWait1","TimeWait">>,
    <<"FinWait2","TimeWait">>, <<"Closing","TimeWait">>, <<"LastAck","Closed">> }
RECURSIVE Reach(_, _)
Reach(S, n) == IF n = 0 THEN S
               ELSE Reach(S \cup {e[2] : e \in {f \in ArriveEdges : f[1] \in S}}, n - 1)
EdgeOk(a, b) ==
  \/ a = b
  \/ <<a, b>> \in {<<"Closed","SynSent">>, <<"SynRcvd","FinWait1">>, <<"Estab","FinWait1">>, <<"CloseWait","LastAck">>,
                  <<"TimeWait","Closed">>}
  \/ b \in Reach({a}, 4)
  \/ (Injects > 0 \/ OldSyn) /\ b \in {"Closed", "Listen"}        \* resets need a forged or old segment
EdgeProp == [][\A p \in P : EdgeOk(St(p), St(p)')]_vars
\* without forged or old segments no connection is ever reset
NoResetInv == (Injects = 0 /\ ~OldSyn) =>
  \A p \in P : Has(p) => \A i \in 1..Len(tcb[p].ones) : "RST" \notin tcb[p].ones[i].ctl
\* (an RST sent from the CLOSED state in answer to a segment that outlived its connection is RFC behaviour)

\* C03: synchronised endpoints agree on sequence numbers
Synced == {"Estab", "FinWait1", "FinWait2", "CloseWait", "Closing", "LastAck", "TimeWait"}
SyncInv == (Injects = 0) =>
  \A p \in P : (Has(p) /\ Has(Peer(p)) /\ tcb[p].st \in Synced /\ tcb[Peer(p)].st \in Synced)
     => (tcb[p].rnxt <= tcb[Peer(p)].nxt /\ tcb[Peer(p)].una <= tcb[p].rnxt)

\* C01/C03, the "eventually" clauses as a statement about stuck states: when nothing is in flight,
\* nothing can be emitted and no retransmission is pending, everything submitted has been delivered (or is
\* readable), and an endpoint that still exists is not waiting for anything
Idle(p) == ~Has(p) \/ (tcb[p].retx = <<>> /\ tcb[p].ones = <<>> /\ tcb[p].heap = <<>> /\ PumpIdle(p))
Quiescent == wire["A"] = {} /\ wire["B"] = {} /\ Idle("A") /\ Idle("B")
Unread(p) == IF Has(p) THEN InLen(tcb[p].intext) ELSE 0
QuiescentInv ==
  (Injects = 0 /\ ~OldSyn /\ Quiescent) =>
     \A p \in P : Has(p) => (got[p] + Unread(p) = sent[Peer(p)] /\ tcb[p].text = 0)

\* C03: a released endpoint lost nothing that it could still have read (no data arrives after release)
(***************************************************************************)
(* Schedules for the replay leg: in simulation mode every behaviour that   *)
(* reaches HistLen steps (or cannot continue) is printed as one JSON line. *)
(***************************************************************************)
\* exploration bound (oneshot ACK queue and out-of-order queue can otherwise grow with every duplicate)
Bound == \A p \in P : Has(p) => (Len(tcb[p].ones) <= 3 /\ Len(tcb[p].heap) <= 3)

EmitSchedule == (Len(hist) < HistLen /\ ENABLED Next) \/ PrintT(<<"SCHED", ToJson(hist)>>)
(***************************************************************************)
(* "Eventually" as a temporal property.  All environment actions consume a *)
(* budget, so every infinite behaviour consists of protocol steps only: a  *)
(* cycle in the state graph is two endpoints keeping each other busy for   *)
(* ever on a network that has stopped losing segments (the TIME-WAIT       *)
(* ping-pong of finding F4 was such a cycle).  Under weak fairness of Next *)
(* every behaviour must come to rest, and QuiescentInv says what holds     *)
(* there.  Checked without a state constraint.                             *)
(***************************************************************************)
FairSpec == Spec /\ WF_vars(Next)
Termination == <>[][FALSE]_vars

=============================================================================
