----------------------------- MODULE TraceReasm -----------------------------
(***************************************************************************)
(* Property-level specification of IPv4 reassembly (C11) evaluated on      *)
(* executions of the real Reassembly.  Per datagram key k (source,          *)
(* destination, protocol, identification) the spec keeps the set of 8-byte  *)
(* blocks received SINCE THE LAST COMPLETION, the total length once the     *)
(* final piece has been seen, and whether a buffer is allocated.  A receive *)
(* must return Complete exactly when the blocks received since the last     *)
(* completion cover the datagram, with the original bytes and header.  The  *)
(* expiry callback of arrival `tok` frees the buffer iff no piece of that   *)
(* datagram arrived after `tok` (and the buffer was not completed since);   *)
(* whether it did is observed by the harness (`culled`), not predicted.     *)
(***************************************************************************)
EXTENDS Integers, Sequences, FiniteSets, TLC, Json, IOUtils
Rec == ndJsonDeserialize(IOEnv.TRACE)
VARIABLES l, s
K == 0..4
Fresh == [cov |-> {}, L |-> -1, alloc |-> FALSE, last |-> -1, since |-> -1, cnt |-> 0]
Init0 == [run |-> -1, b |-> [k \in K |-> Fresh], bad |-> {}, nbad |-> 0, runs |-> 0, events |-> 0]
Blocks(fo, len) == IF len = 0 THEN {} ELSE fo .. (fo + (len + 7) \div 8 - 1)
Viol(t, e, clause) ==
  IF Cardinality({x \in t.bad : x.clause = clause}) >= 4 THEN [t EXCEPT !.nbad = @ + 1]
  ELSE [t EXCEPT !.bad = @ \cup {[run |-> t.run, i |-> e.i, clause |-> clause]}, !.nbad = @ + 1]
Rx(t, e) ==
  LET k == e.k
      cur == t.b[k]
      whole == e.fo = 0 /\ ~e.mf
      cov1 == cur.cov \cup Blocks(e.fo, e.len)
      L1 == IF ~e.mf THEN e.fo * 8 + e.len ELSE cur.L
      complete == whole \/ (L1 > 0 /\ Blocks(0, L1) \subseteq cov1)
      t1 == IF e.res = "Panic" THEN Viol(t, e, "receive_packet panicked")
            ELSE IF complete /\ e.res # "Complete" THEN Viol(t, e, "the pieces received since the last completion cover the datagram but it was not returned")
            ELSE IF ~complete /\ e.res = "Complete" THEN Viol(t, e, "a datagram was returned although pieces are missing")
            ELSE IF e.res = "Complete" /\ (~e.okbytes \/ e.olen # (IF whole THEN e.len ELSE L1)) THEN Viol(t, e, "the returned payload is not the original byte for byte")
            ELSE IF e.res = "Complete" /\ ~e.okhdr THEN Viol(t, e, "the returned header is not the original header")
            ELSE t
      \* follow what the code reported (so that one mismatch is not reported again and again)
      done == e.res = "Complete"
  IN [t1 EXCEPT !.b[k] = IF done THEN Fresh
                          ELSE [cov |-> cov1, L |-> L1, alloc |-> TRUE, last |-> e.i,
                                since |-> IF cur.alloc THEN cur.since ELSE e.i, cnt |-> cur.cnt + 1]]
Expire(t, e) ==
  LET cur == t.b[e.k]
      \* the callback of arrival `tok` frees the buffer iff it is the latest arrival of the buffer that is allocated now
      due == cur.alloc /\ cur.last = e.tok
      t1 == IF e.culled /\ ~due
            THEN Viol(t, e, IF cur.alloc /\ e.tok < cur.since
                            THEN "the expiry callback of a freed buffer discarded a newer datagram with the same identification"
                            ELSE "an incomplete datagram was discarded although fragments arrived after the expiring timer was set")
            ELSE IF ~e.culled /\ due THEN Viol(t, e, "an incomplete datagram was not discarded when its timer expired without new fragments")
            ELSE t
  \* follow the code
  IN IF e.culled THEN [t1 EXCEPT !.b[e.k] = Fresh] ELSE t1
Step(t, e) ==
  LET t0 == [t EXCEPT !.events = @ + 1] IN
  IF e.ev = "reset" THEN [t0 EXCEPT !.run = e.run, !.b = [k \in K |-> Fresh], !.runs = @ + 1]
  ELSE IF e.ev = "rx" THEN Rx(t0, e)
  ELSE IF e.ev = "expire" THEN Expire(t0, e)
  ELSE t0
Init == l = 1 /\ s = Init0
Next == l <= Len(Rec) /\ s' = Step(s, Rec[l]) /\ l' = l + 1
Spec == Init /\ [][Next]_<<l, s>>
Report == TLCSet(1, [bad |-> s.bad, nbad |-> s.nbad, runs |-> s.runs, events |-> s.events])
Final == /\ PrintT(<<"TRACE-RESULT", ToJson(TLCGet(1))>>)
         /\ PrintT(<<"TRACE-SUMMARY", ToJson([events |-> Len(Rec), consumed |-> TLCGet("stats").diameter - 1])>>)
=============================================================================
