----------------------------- MODULE TraceIpGen -----------------------------
(***************************************************************************)
(* C15 on the real IpGenerator.  Property-level state: the pool, the       *)
(* blocked addresses and the blocks currently held (handed out and not     *)
(* returned).  A 64-address window is used, embedded order- and alignment- *)
(* preservingly into the 32-bit space by the harness (offsets logged).     *)
(***************************************************************************)
EXTENDS Integers, Sequences, FiniteSets, TLC, Json, IOUtils
Rec == ndJsonDeserialize(IOEnv.TRACE)
VARIABLES l, s
Wd == 6
Size(m) == 2 ^ (Wd - m)
Blk(a, m) == a..(a + Size(m) - 1)
Init0 == [run |-> -1, pool |-> {}, blocked |-> {}, held |-> {}, returned |-> FALSE, kind |-> "none",
          bad |-> {}, nbad |-> 0, runs |-> 0, events |-> 0]
Viol(t, e, clause) ==
  IF Cardinality({x \in t.bad : x.clause = clause}) >= 3 THEN [t EXCEPT !.nbad = @ + 1]
  ELSE [t EXCEPT !.bad = @ \cup {[run |-> t.run, i |-> e.i, clause |-> clause]}, !.nbad = @ + 1]
Free(t) == t.pool \ (t.blocked \cup t.held)
\* a block handed out must lie in the pool, be unblocked, not held, and aligned
Take(t, e, a, m) ==
  LET b == Blk(a, m)
      t1 == IF ~(b \subseteq t.pool) THEN Viol(t, e, "handed out an address outside the configured pool")
            ELSE IF b \cap t.blocked # {} THEN Viol(t, e, "handed out a blocked address")
            ELSE IF b \cap t.held # {} THEN Viol(t, e, "handed out an address (or overlapping subnet) that is still held")
            ELSE IF a % Size(m) # 0 THEN Viol(t, e, "handed out a subnet that is not aligned to its mask")
            ELSE t
  IN [t1 EXCEPT !.held = @ \cup b]
Step(t, e) ==
  LET t0 == [t EXCEPT !.events = @ + 1] IN
  CASE e.ev = "reset" ->
         [t0 EXCEPT !.run = e.run, !.runs = @ + 1, !.blocked = {}, !.held = {}, !.returned = FALSE, !.kind = e.kind,
                    !.pool = IF e.kind = "noends" THEN (e.lo + 1)..(e.hi - 1) ELSE e.lo..e.hi]
    [] e.ev = "fetch_ip" ->
         IF e.res = -1000
         THEN (IF Free(t0) = {} THEN t0
               ELSE Viol(t0, e, IF t0.kind = "noends" THEN "a generator for a subnet minus its ends does not offer all host addresses"
                                ELSE "reported exhaustion although an address is free"))
         ELSE Take(t0, e, e.res, Wd)
    [] e.ev = "fetch_net" ->
         IF e.res = -1000
         THEN (IF t0.returned \/ ~\E a \in 0..63 : a % Size(e.m) = 0 /\ Blk(a, e.m) \subseteq Free(t0) THEN t0
               ELSE Viol(t0, e, "reported exhaustion although an aligned free subnet exists (no return has fragmented the pool)"))
         ELSE IF e.rm # e.m THEN Viol(t0, e, "returned a subnet with another mask than requested")
         ELSE Take(t0, e, e.res, e.m)
    [] e.ev = "return_ip" -> [t0 EXCEPT !.held = @ \ {e.a}, !.returned = TRUE]
    [] e.ev = "return_net" -> [t0 EXCEPT !.held = @ \ Blk(e.a, e.m), !.returned = TRUE]
    [] e.ev = "block" -> [t0 EXCEPT !.blocked = @ \cup Blk(e.a, e.m)]
    [] OTHER -> t0
Init == l = 1 /\ s = Init0
Next == l <= Len(Rec) /\ s' = Step(s, Rec[l]) /\ l' = l + 1
Spec == Init /\ [][Next]_<<l, s>>
Report == TLCSet(1, [bad |-> s.bad, nbad |-> s.nbad, runs |-> s.runs, events |-> s.events])
Final == /\ PrintT(<<"TRACE-RESULT", ToJson(TLCGet(1))>>)
         /\ PrintT(<<"TRACE-SUMMARY", ToJson([events |-> Len(Rec), consumed |-> TLCGet("stats").diameter - 1])>>)
=============================================================================
