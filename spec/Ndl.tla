--------------------------------- MODULE Ndl ---------------------------------
(***************************************************************************)
(* C19 (and the NDL half of C14).  A network description is a TREE:        *)
(* networks with ip / range entries; machines with options (name, count),  *)
(* networks, protocols and applications, every node carrying an ordered    *)
(* list of <<key, value>> arguments.  This module is the generator and the *)
(* oracle of the property:                                                 *)
(*   Render(t, v)  the text of tree t in variant v (tab / 4-space          *)
(*                 indentation, LF / CRLF), written as the grammar of      *)
(*                 ndl/parsing prescribes                                  *)
(*   Expect(t)     the structure core_parser must return for every variant *)
(*   Mutants(t)    texts with exactly one structural error (must be        *)
(*                 rejected with an error, not accepted, not a panic)      *)
(*   Meaning(t)    what running the description must do: every described   *)
(*                 message arrives, the run ends with the normal status    *)
(* TLC enumerates the tree family below (Init) and prints one JSON object  *)
(* per tree; the harness feeds the texts to the real parser / generator.   *)
(***************************************************************************)
EXTENDS Integers, Sequences, FiniteSets, TLC, Json

RECURSIVE Rep(_, _)
Rep(s, n) == IF n = 0 THEN "" ELSE s \o Rep(s, n - 1)
RECURSIVE Cat(_)
Cat(ss) == IF ss = <<>> THEN "" ELSE Head(ss) \o Cat(Tail(ss))
Args(opts) == Cat([i \in 1..Len(opts) |-> " " \o opts[i][1] \o "='" \o opts[i][2] \o "'"])
\* one line: indentation, [Type args], line end
Line(v, depth, ty, opts) == Rep(v.ind, depth) \o "[" \o ty \o Args(opts) \o "]" \o v.nl
Lines(v, depth, ty, items) == Cat([i \in 1..Len(items) |-> Line(v, depth, ty, items[i])])

RenderNet(v, n) == Line(v, 1, "Network", <<<<"id", n.id>>>>) \o Lines(v, 2, "IP", n.ips)
RenderMachine(v, m) ==
  Line(v, 1, "Machine", m.opts)
  \o Line(v, 2, "Networks", <<>>) \o Lines(v, 3, "Network", m.nets)
  \o Line(v, 2, "Protocols", <<>>) \o Lines(v, 3, "Protocol", m.protos)
  \o Line(v, 2, "Applications", <<>>) \o Lines(v, 3, "Application", m.apps)
Render(t, v) ==
  Line(v, 0, "Networks", <<>>) \o Cat([i \in 1..Len(t.nets) |-> RenderNet(v, t.nets[i])])
  \o Line(v, 0, "Machines", <<>>) \o Cat([i \in 1..Len(t.machs) |-> RenderMachine(v, t.machs[i])])

Variants == << [name |-> "tabs", ind |-> "\t", nl |-> "\n"],
               [name |-> "spaces", ind |-> "    ", nl |-> "\n"],
               [name |-> "crlf", ind |-> "\t", nl |-> "\r\n"] >>

\* ---- what the parser must return: options as maps, children as lists
Map(opts) == [k \in {opts[i][1] : i \in 1..Len(opts)} |-> (CHOOSE i \in 1..Len(opts) : opts[i][1] = k) ]
OptMap(opts) == [k \in {opts[i][1] : i \in 1..Len(opts)} |-> opts[CHOOSE i \in 1..Len(opts) : opts[i][1] = k][2]]
MapList(items) == [i \in 1..Len(items) |-> OptMap(items[i])]
Expect(t) ==
  [ networks |-> [id \in {t.nets[i].id : i \in 1..Len(t.nets)} |->
                    LET n == t.nets[CHOOSE i \in 1..Len(t.nets) : t.nets[i].id = id] IN
                    [options |-> OptMap(<<<<"id", n.id>>>>), ips |-> MapList(n.ips)]],
    machines |-> [i \in 1..Len(t.machs) |->
                    [options |-> OptMap(t.machs[i].opts), networks |-> MapList(t.machs[i].nets),
                     protocols |-> MapList(t.machs[i].protos), applications |-> MapList(t.machs[i].apps)]] ]

\* ---- texts with exactly one structural error
Tab == Variants[1]
Mutants(t) ==
  LET good == Render(t, Tab)
      m1 == t.machs[1] IN
  << [class |-> "wrong nesting (section indented one level too deep)",
      text |-> Line(Tab, 0, "Networks", <<>>) \o Cat([i \in 1..Len(t.nets) |-> RenderNet(Tab, t.nets[i])])
               \o Line(Tab, 0, "Machines", <<>>) \o Line(Tab, 1, "Machine", m1.opts)
               \o Line(Tab, 3, "Networks", <<>>) \o Lines(Tab, 3, "Network", m1.nets)
               \o Line(Tab, 2, "Protocols", <<>>) \o Lines(Tab, 3, "Protocol", m1.protos)
               \o Line(Tab, 2, "Applications", <<>>) \o Lines(Tab, 3, "Application", m1.apps)],
     [class |-> "unknown section type", text |-> Line(Tab, 0, "Foo", <<>>) \o good],
     [class |-> "missing required section (no Applications)",
      text |-> Line(Tab, 0, "Networks", <<>>) \o Cat([i \in 1..Len(t.nets) |-> RenderNet(Tab, t.nets[i])])
               \o Line(Tab, 0, "Machines", <<>>) \o Line(Tab, 1, "Machine", m1.opts)
               \o Line(Tab, 2, "Networks", <<>>) \o Lines(Tab, 3, "Network", m1.nets)
               \o Line(Tab, 2, "Protocols", <<>>) \o Lines(Tab, 3, "Protocol", m1.protos)],
     [class |-> "duplicate network id",
      text |-> Line(Tab, 0, "Networks", <<>>) \o RenderNet(Tab, t.nets[1]) \o RenderNet(Tab, t.nets[1])
               \o Line(Tab, 0, "Machines", <<>>) \o Cat([i \in 1..Len(t.machs) |-> RenderMachine(Tab, t.machs[i])])],
     [class |-> "duplicate argument",
      text |-> Line(Tab, 0, "Networks", <<>>) \o Cat([i \in 1..Len(t.nets) |-> RenderNet(Tab, t.nets[i])])
               \o Line(Tab, 0, "Machines", <<>>) \o Line(Tab, 1, "Machine", m1.opts \o <<<<m1.opts[1][1], "again">>>>)
               \o Line(Tab, 2, "Networks", <<>>) \o Lines(Tab, 3, "Network", m1.nets)
               \o Line(Tab, 2, "Protocols", <<>>) \o Lines(Tab, 3, "Protocol", m1.protos)
               \o Line(Tab, 2, "Applications", <<>>) \o Lines(Tab, 3, "Application", m1.apps)] >>

(***************************************************************************)
(* The tree family: a sender (count c, message, destination by name or by  *)
(* address, port in hex or decimal, argument order), optionally a forwarder *)
(* (forwarding to the port it listens on or to another one), a capturing   *)
(* receiver; or two machines playing ping-pong; one or two networks.       *)
(***************************************************************************)
VARIABLES count, byName, hexPort, msg, twoNets, fwd, swapArgs, arp, diffPorts, kind, auto, anon
vars == <<count, byName, hexPort, msg, twoNets, fwd, swapArgs, arp, diffPorts, kind, auto, anon>>
RcvIp == "123.45.67.90"
FwdIp == "123.45.67.91"
Port == IF hexPort THEN "0xbeef" ELSE "48879"
Port2 == IF hexPort THEN "0xface" ELSE "64206"
\* the port the receiver listens on: a forwarder may forward to another port than the one it listens on
CapPort == IF fwd /\ diffPorts THEN Port2 ELSE Port
Swap(opts) == IF swapArgs /\ Len(opts) >= 2 THEN <<opts[2], opts[1]>> \o SubSeq(opts, 3, Len(opts)) ELSE opts
\* with auto-protocol='true' a machine names only UDP: the generator adds IPv4 and ARP itself
Protos == IF auto THEN <<<<<<"name", "UDP">>>>>>
          ELSE <<<<<<"name", "IPv4">>>>, <<<<"name", "UDP">>>>>> \o (IF arp THEN <<<<<<"name", "ARP">>>>>> ELSE <<>>)
Auto == IF auto THEN <<<<"auto-protocol", "true">>>> ELSE <<>>
FirstHop == IF fwd THEN (IF byName THEN "fwd" ELSE FwdIp) ELSE (IF byName THEN "rcv" ELSE RcvIp)
\* the three machines of a "send" description
SndM == [opts |-> (IF anon THEN <<<<"count", "1">>>> ELSE Swap(<<<<"name", "snd">>>> \o (IF count > 0 THEN <<<<"count", ToString(count)>>>> ELSE <<>>))) \o Auto,
         nets |-> <<<<<<"id", "5">>>>>> \o (IF twoNets THEN <<<<<<"id", "1">>>>>> ELSE <<>>),
         protos |-> Protos,
         apps |-> <<Swap(<<<<"name", "send_message">>, <<"message", msg>>, <<"to", FirstHop>>, <<"port", Port>>>>)>>]
FwdM == [opts |-> <<<<"name", "fwd">>>> \o Auto, nets |-> <<<<<<"id", "5">>>>>>, protos |-> Protos,
         apps |-> <<<<<<"name", "forward">>, <<"ip", FwdIp>>, <<"to", IF byName THEN "rcv" ELSE RcvIp>>,
                      <<"local_port", Port>>, <<"remote_port", CapPort>>>>>>]
\* (with two networks the receiver lists the network of its address SECOND)
RcvM == [opts |-> <<<<"name", "rcv">>>> \o Auto, nets |-> (IF twoNets THEN <<<<<<"id", "1">>>>>> ELSE <<>>) \o <<<<<<"id", "5">>>>>>, protos |-> Protos,
         apps |-> <<Swap(<<<<"name", "capture">>, <<"ip", RcvIp>>, <<"port", CapPort>>, <<"type", "count">>,
                           <<"message_count", ToString(IF count = 0 THEN 1 ELSE count)>>>>)>>]
\* usually sender, (forwarder,) receiver; with `anon` the sender has no name and is declared LAST, after the named
\* machines it addresses
SendTree ==
  [ nets |-> <<[id |-> "5", ips |-> <<<<<<"range", "123.45.67.89-95">>>>, <<<<"ip", "123.45.70.1">>>>, <<<<"range", "123.45.71.7-7">>>>>>]>>
             \o (IF twoNets THEN <<[id |-> "1", ips |-> <<<<<<"range", "12.34.56.89-90">>>>>>]>> ELSE <<>>),
    machs |-> IF anon THEN <<RcvM>> \o (IF fwd THEN <<FwdM>> ELSE <<>>) \o <<SndM>>
              ELSE <<SndM>> \o (IF fwd THEN <<FwdM>> ELSE <<>>) \o <<RcvM>> ]
\* two machines playing ping-pong: the starter sends a counter of 255, each side sends it back decremented, the
\* side that reaches 0 ends the run: 255 datagrams in all
PingIp == "123.45.67.89"
PongIp == "123.45.67.90"
PPTree ==
  [ nets |-> <<[id |-> "5", ips |-> <<<<<<"range", "123.45.67.89-95">>>>, <<<<"ip", "123.45.70.1">>>>, <<<<"range", "123.45.71.7-7">>>>>>]>>
             \o (IF twoNets THEN <<[id |-> "1", ips |-> <<<<<<"range", "12.34.56.89-90">>>>>>]>> ELSE <<>>),
    machs |-> <<[opts |-> <<<<"name", "ping">>>> \o Auto,
                 nets |-> <<<<<<"id", "5">>>>>> \o (IF twoNets THEN <<<<<<"id", "1">>>>>> ELSE <<>>),
                 protos |-> Protos,
                 apps |-> <<Swap(<<<<"name", "ping_pong">>, <<"starter", "true">>, <<"ip", PingIp>>, <<"to", IF byName THEN "pong" ELSE PongIp>>,
                                   <<"local_port", Port>>, <<"remote_port", Port2>>>>)>>],
                [opts |-> <<<<"name", "pong">>>> \o Auto, nets |-> (IF twoNets THEN <<<<<<"id", "1">>>>>> ELSE <<>>) \o <<<<<<"id", "5">>>>>>, protos |-> Protos,
                 apps |-> <<Swap(<<<<"name", "ping_pong">>, <<"starter", "false">>, <<"ip", PongIp>>, <<"to", IF byName THEN "ping" ELSE PingIp>>,
                                   <<"local_port", Port2>>, <<"remote_port", Port>>>>)>>]>> ]
Tree == IF kind = "pp" THEN PPTree ELSE SendTree
Meaning == IF kind = "pp" THEN [senders |-> 255, exit |-> "Exited", hops |-> 1]
           ELSE [senders |-> IF count = 0 THEN 1 ELSE count, exit |-> "Exited", hops |-> IF fwd THEN 2 ELSE 1]
Msgs == {"Hello!", "a b=c d", "it\\'s", ""}
Init == /\ count \in 0..3 /\ byName \in BOOLEAN /\ hexPort \in BOOLEAN /\ msg \in Msgs /\ twoNets \in BOOLEAN
        /\ fwd \in BOOLEAN /\ swapArgs \in BOOLEAN /\ arp \in BOOLEAN
        /\ diffPorts \in BOOLEAN /\ kind \in {"send", "pp"} /\ auto \in BOOLEAN
        /\ (auto => ~arp)
        /\ anon \in BOOLEAN
        /\ (anon => (kind = "send" /\ msg = "Hello!" /\ ~hexPort /\ count = 0 /\ ~swapArgs))
        /\ (diffPorts => fwd)
        /\ (kind = "pp" => (count = 0 /\ msg = "Hello!" /\ ~fwd))
Next == UNCHANGED vars
Spec == Init /\ [][Next]_vars
Case == [ tree |-> Tree, expect |-> Expect(Tree), meaning |-> Meaning,
          texts |-> [i \in 1..Len(Variants) |-> [variant |-> Variants[i].name, text |-> Render(Tree, Variants[i])]],
          mutants |-> Mutants(Tree) ]
Emit == PrintT(<<"NDLCASE", ToJson(Case)>>)
\* renderings of one tree differ only in indentation and line ends
SameShape == \A i \in 1..Len(Variants) : Len(Render(Tree, Variants[i])) > 0
=============================================================================
