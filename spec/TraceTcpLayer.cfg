SPECIFICATION Spec
CONSTRAINT Report
POSTCONDITION Final
CHECK_DEADLOCK FALSE
