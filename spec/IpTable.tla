------------------------------- MODULE IpTable -------------------------------
(***************************************************************************)
(* C09.  Routing table (ip_table.rs) and subnet arithmetic (subnetting.rs) *)
(* on addresses of Wd bits (the code: 32).  Two layers again:              *)
(*  - the DEFINITIONS the property states (a network is the set of         *)
(*    addresses id..broadcast, lookup = value of the longest matching      *)
(*    prefix, ...)                                                         *)
(*  - the CODE's way of computing them (mask-and-compare, BTreeMap ordered *)
(*    by mask descending then id with first-match iteration, the           *)
(*    `!(end-start)` trick of TryFrom<RangeInclusive>), transcribed.       *)
(* TLC checks that they coincide for every network / address / table of    *)
(* the model width, and that the table is order-independent.               *)
(***************************************************************************)
EXTENDS Integers, Sequences, FiniteSets, TLC
CONSTANTS Wd, Vals, MaxOps
N == 2 ^ Wd
Addr == 0..(N - 1)
Lens == 0..Wd
\* ---- definitions
Size(m) == 2 ^ (Wd - m)
Id(a, m) == (a \div Size(m)) * Size(m)
Bcast(a, m) == Id(a, m) + Size(m) - 1
Net(a, m) == [id |-> Id(a, m), m |-> m]
Nets == {Net(a, m) : a \in Addr, m \in Lens}
Members(n) == n.id..(n.id + Size(n.m) - 1)
\* ---- the code
MaskOf(m) == N - Size(m)                                  \* from_bitcount: m ones followed by zeros
And(x, mask, m) == (x \div Size(m)) * Size(m)             \* x & mask for a prefix mask
ContainsC(n, a) == n.id = And(a, MaskOf(n.m), n.m)        \* Ipv4Net::contains
BroadcastC(n) == n.id + (N - 1 - MaskOf(n.m))             \* id + !mask
OverlapsC(n1, n2) == n1.id <= BroadcastC(n2) /\ BroadcastC(n1) >= n2.id
IsMask(x) == \E m \in Lens : x = MaskOf(m)
RangeToNetC(lo, hi) ==                                    \* TryFrom<RangeInclusive<Ipv4Address>>
  IF lo > hi THEN "Empty"
  ELSE LET mask == N - 1 - (hi - lo) IN
       IF ~IsMask(mask) THEN "Size"
       ELSE LET m == CHOOSE k \in Lens : MaskOf(k) = mask
                r == Net(lo, m) IN
            IF r.id = lo /\ BroadcastC(r) = hi THEN r ELSE "Start"
\* table: set of <<net, value>>; the BTreeMap orders by mask descending, then id; lookup = first containing
Before(e1, e2) == e1[1].m > e2[1].m \/ (e1[1].m = e2[1].m /\ e1[1].id < e2[1].id)
LookupC(t, a) == LET hits == {e \in t : ContainsC(e[1], a)} IN
                 IF hits = {} THEN "None" ELSE (CHOOSE e \in hits : \A f \in hits : e = f \/ Before(e, f))[2]
AddC(t, n, v) == {e \in t : e[1] # n} \cup {<<n, v>>}
RemoveC(t, n) == {e \in t : e[1] # n}
\* ---- the property's definition of lookup
LookupD(t, a) == LET hits == {e \in t : a \in Members(e[1])} IN
                 IF hits = {} THEN "None" ELSE (CHOOSE e \in hits : \A f \in hits : f[1].m <= e[1].m)[2]

VARIABLES table, ops
Init == table = {} /\ ops = 0
Add(n, v) == ops < MaxOps /\ ops' = ops + 1 /\ table' = AddC(table, n, v)
AddDirect(a, v) == Add(Net(a, Wd), v)
Remove(n) == ops < MaxOps /\ ops' = ops + 1 /\ table' = RemoveC(table, n)
Next == \E n \in Nets, v \in Vals : Add(n, v) \/ Remove(n)
Spec == Init /\ [][Next]_<<table, ops>>

\* invariants ---------------------------------------------------------------
Functional == \A e, f \in table : e[1] = f[1] => e = f              \* adding a network twice replaces its value
Lpm == \A a \in Addr : LookupC(table, a) = LookupD(table, a)
\* subnet arithmetic (state independent; evaluated once per state, cheap for the model width)
NetArith ==
  /\ \A n \in Nets : \A a \in Addr : ContainsC(n, a) = (a \in Members(n))
  /\ \A n \in Nets : BroadcastC(n) = n.id + Size(n.m) - 1
  /\ \A n1, n2 \in Nets : OverlapsC(n1, n2) = (Members(n1) \cap Members(n2) # {})
  /\ \A lo, hi \in Addr : LET r == RangeToNetC(lo, hi) IN
        IF \E n \in Nets : Members(n) = lo..hi /\ lo <= hi
        THEN r \in Nets /\ Members(r) = lo..hi
        ELSE r \in {"Empty", "Size", "Start"}
=============================================================================
