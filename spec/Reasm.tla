-------------------------------- MODULE Reasm --------------------------------
(***************************************************************************)
(* IPv4 reassembly as implemented by reassembly.rs / segment.rs (RFC 791   *)
(* p.28), one action per call of the code:                                 *)
(*   Receive(k, p)  = Reassembly::receive_packet for piece p of datagram k  *)
(*   Expire(k, e)   = Reassembly::maybe_cull_segment(bufid k, epoch e), the *)
(*                    callback Ipv4Session::receive schedules per arrival   *)
(* Unit = one 8-byte block.  Datagram k has DLen[k] blocks; its pieces are   *)
(* all ranges produced by fragmenting it with NFB in Nfbs (the same datagram*)
(* may arrive through two chains, so pieces overlap in range and repeat).   *)
(* Ghost variables cov/gen are the property-level view (C11): blocks        *)
(* received since the last completion, and the buffer incarnation.          *)
(* Epochs: FixEpochs = FALSE is the code as found (every buffer starts at   *)
(* epoch 0, so the callback of a freed buffer matches a newer buffer of the *)
(* same key: finding K5, NoStaleCull fails); FixEpochs = TRUE is the        *)
(* repaired code: `retired` is the highest epoch of any freed buffer and a  *)
(* new buffer starts there, so its epochs are above those of every callback *)
(* still pending.                                                           *)
(***************************************************************************)
EXTENDS Integers, Sequences, FiniteSets, TLC
CONSTANTS Keys, DLen, Nfbs, MaxArrivals, FixEpochs
Nil == [alloc |-> FALSE]

\* the pieces of a datagram of n blocks cut with nfb blocks per fragment: <<fo, blocks, mf>>
PiecesOf(n, nfb) == {<<fo, IF fo + nfb >= n THEN n - fo ELSE nfb, fo + nfb < n>> : fo \in {i \in 0..(n - 1) : i % nfb = 0}}
Universe(k) == UNION {PiecesOf(DLen[k], f) : f \in Nfbs}
Blk(p) == p[1]..(p[1] + p[2] - 1)

VARIABLES buf, timers, arrivals, last, cov, gen, retired
vars == <<buf, timers, arrivals, last, cov, gen, retired>>

Init == /\ buf = [k \in Keys |-> Nil]
        /\ timers = {}               \* pending expiry callbacks <<k, epoch, gen>>
        /\ arrivals = 0
        /\ last = [kind |-> "none"]
        /\ cov = [k \in Keys |-> {}]
        /\ gen = [k \in Keys |-> 0]
        /\ retired = 0

Max2(a, b) == IF a > b THEN a ELSE b
\* final assembly (after the F6 repair): pieces in offset order, each contributes only missing blocks
RECURSIVE Assemble(_, _)
Assemble(ps, acc) ==      \* ps: set of <<fo, n, arrivalNo>>, acc: sequence of block numbers
  IF ps = {} THEN acc
  ELSE LET p == CHOOSE x \in ps : \A y \in ps : x[1] < y[1] \/ (x[1] = y[1] /\ x[3] <= y[3])
           start == p[1]
           have == Len(acc)
       IN IF start + p[2] <= have THEN Assemble(ps \ {p}, acc)
          ELSE Assemble(ps \ {p}, acc \o [i \in 1..(start + p[2] - Max2(start, have)) |-> Max2(start, have) + i - 1])

Retire(b) == IF b.alloc THEN Max2(retired, b.epoch) ELSE retired
Receive(k, p) ==
  /\ arrivals < MaxArrivals
  /\ arrivals' = arrivals + 1
  /\ IF p[1] = 0 /\ ~p[3]                                  \* (2) whole datagram: flush, complete
     THEN /\ buf' = [buf EXCEPT ![k] = Nil]
          /\ last' = [kind |-> "complete", k |-> k, data |-> [i \in 1..p[2] |-> i - 1]]
          /\ cov' = [cov EXCEPT ![k] = {}]
          /\ gen' = [gen EXCEPT ![k] = @ + 1]
          /\ retired' = Retire(buf[k])
          /\ UNCHANGED timers
     ELSE LET b0 == IF buf[k].alloc THEN buf[k] ELSE [alloc |-> TRUE, rcv |-> {}, pieces |-> {}, tdl |-> 0, epoch |-> IF FixEpochs THEN retired ELSE 0]
              b1 == [b0 EXCEPT !.pieces = @ \cup {<<p[1], p[2], arrivals>>},
                               !.rcv = @ \cup Blk(p),
                               !.tdl = IF ~p[3] THEN p[1] + p[2] ELSE @]
              complete == b1.tdl # 0 /\ (0..(b1.tdl - 1)) \subseteq b1.rcv
          IN IF complete
             THEN /\ buf' = [buf EXCEPT ![k] = Nil]
                  /\ last' = [kind |-> "complete", k |-> k, data |-> Assemble(b1.pieces, <<>>)]
                  /\ cov' = [cov EXCEPT ![k] = {}]
                  /\ gen' = [gen EXCEPT ![k] = @ + 1]
                  /\ retired' = Max2(retired, b1.epoch)
                  /\ UNCHANGED timers
             ELSE /\ buf' = [buf EXCEPT ![k] = [b1 EXCEPT !.epoch = @ + 1]]
                  /\ last' = [kind |-> "incomplete", k |-> k, covers |-> (DLen[k] > 0 /\ (0..(DLen[k] - 1)) \subseteq (cov[k] \cup Blk(p)) /\ b1.tdl # 0)]
                  /\ cov' = [cov EXCEPT ![k] = @ \cup Blk(p)]
                  /\ timers' = timers \cup {<<k, b1.epoch + 1, gen[k]>>}
                  /\ UNCHANGED <<gen, retired>>

\* the callback fires (each once); the code compares epochs only
Expire(t) ==
  /\ t \in timers
  /\ timers' = timers \ {t}
  /\ LET k == t[1] IN
     IF buf[k].alloc /\ buf[k].epoch = t[2]
     THEN /\ buf' = [buf EXCEPT ![k] = Nil]
          /\ cov' = [cov EXCEPT ![k] = {}]
          /\ gen' = [gen EXCEPT ![k] = @ + 1]
          /\ retired' = Retire(buf[k])
          /\ last' = [kind |-> "culled", k |-> k, stale |-> gen[k] # t[3]]
     ELSE /\ UNCHANGED <<buf, cov, gen, retired>>
          /\ last' = [kind |-> "kept", k |-> k]
  /\ UNCHANGED arrivals

Next == (\E k \in Keys : \E p \in Universe(k) : Receive(k, p)) \/ (\E t \in timers : Expire(t))
Spec == Init /\ [][Next]_vars

\* C11 --------------------------------------------------------------------
\* what is returned is the original datagram, block for block
Exact == last.kind = "complete" => last.data = [i \in 1..DLen[last.k] |-> i - 1]
\* returned exactly when the pieces received since the last completion cover it
CompleteIff == last.kind = "incomplete" => ~last.covers
\* the RFC bitmap equals the property-level coverage
CovInv == \A k \in Keys : buf[k].alloc => buf[k].rcv = cov[k]
NoLeak == \A k \in Keys : ~buf[k].alloc => cov[k] = {}
\* a buffer is only discarded by a callback of its own incarnation -- FALSE for the code as found (finding K5)
NoStaleCull == last.kind = "culled" => ~last.stale
=============================================================================
