SPECIFICATION Spec
CONSTANTS
  Wd = 3
  Vals = {1, 2}
  MaxOps = 3
INVARIANTS Functional Lpm
CHECK_DEADLOCK FALSE
