SPECIFICATION Spec
CONSTANTS
  Machines = {"m1", "m2", "m3"}
  Ips = {"i1", "i2", "i3", "ix"}
  Owner <- OwnerA
  Subnet <- NoSub
  Tries = 3
  Drops = 2
  Calls <- CallsA
INVARIANTS Correct TableCorrect Unclaimed Succeeds Bounded NoHang
CHECK_DEADLOCK FALSE
