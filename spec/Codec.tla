-------------------------------- MODULE Codec --------------------------------
(***************************************************************************)
(* C08 / C14 / C18.  The wire formats of Elvis' header codecs written from *)
(* the RFC field layouts (RFC 791 3.1 with IHL = 5, RFC 768, RFC 9293 3.1  *)
(* with data offset 5, Ethernet/IPv4 ARP, and Elvis' own DNS (names        *)
(* terminated by a space) and DHCP (strings terminated by NUL) layouts) as *)
(* functions on byte sequences: Enc*(fields) and Dec*(bytes), the latter   *)
(* total: [ok |-> FALSE] or [ok |-> TRUE, f |-> fields, used |-> n].       *)
(* 32-bit fields are 4-byte sequences, 48-bit MACs 6-byte sequences (TLC   *)
(* integers are 32-bit).  The Internet checksum (RFC 1071) is Cksum.       *)
(***************************************************************************)
EXTENDS Integers, Sequences, FiniteSets, TLC
Hi(x) == x \div 256
Lo(x) == x % 256
U16(b, i) == b[i] * 256 + b[i + 1]            \* big endian, 1-based index
Sub(b, i, n) == SubSeq(b, i, i + n - 1)
B2(x) == <<Hi(x), Lo(x)>>
Bool(x) == IF x THEN 1 ELSE 0

\* ---------------------------------------------------------------- RFC 1071
RECURSIVE Words(_)
Words(b) == IF b = <<>> THEN <<>>
            ELSE IF Len(b) = 1 THEN <<b[1] * 256>>                    \* odd byte padded with zero
            ELSE <<b[1] * 256 + b[2]>> \o Words(SubSeq(b, 3, Len(b)))
Fold(x) == IF x > 65535 THEN (x % 65536) + (x \div 65536) ELSE x      \* end-around carry
RECURSIVE OcSum(_)
OcSum(w) == IF w = <<>> THEN 0 ELSE Fold(Fold(Head(w) + OcSum(Tail(w))))
Cksum(b) == 65535 - OcSum(Words(b))                                   \* one's complement of the one's-complement sum
Verifies(b) == OcSum(Words(b)) = 65535                                \* sum over the data including its checksum field

\* ------------------------------------------------------------------- IPv4
EncIpv4(f) == <<69, f.tos>> \o B2(f.tl) \o B2(f.id) \o <<(Bool(f.df) * 2 + Bool(f.mf)) * 32 + Hi(f.fo), Lo(f.fo), f.ttl, f.proto>>
              \o B2(f.ck) \o f.src \o f.dst
DecIpv4(b, checked) ==
  IF Len(b) < 20 \/ b[1] \div 16 # 4 \/ b[1] % 16 # 5 \/ b[2] % 4 # 0 \/ b[7] \div 128 # 0 THEN [ok |-> FALSE]
  ELSE LET f == [tos |-> b[2], tl |-> U16(b, 3), id |-> U16(b, 5), df |-> (b[7] \div 64) % 2 = 1, mf |-> (b[7] \div 32) % 2 = 1,
                 fo |-> (b[7] % 32) * 256 + b[8], ttl |-> b[9], proto |-> b[10], ck |-> U16(b, 11),
                 src |-> Sub(b, 13, 4), dst |-> Sub(b, 17, 4)]
           good == IF checked THEN Verifies(Sub(b, 1, 20)) ELSE f.ck = 0
       IN IF good THEN [ok |-> TRUE, f |-> f, used |-> 20] ELSE [ok |-> FALSE]

\* -------------------------------------------------------------------- UDP
EncUdp(f) == B2(f.sport) \o B2(f.dport) \o B2(f.len) \o B2(f.ck)
Pseudo(src, dst, proto, len) == src \o dst \o <<0, proto>> \o B2(len)
DecUdp(b, plen, src, dst, checked) ==
  IF Len(b) < 8 \/ U16(b, 5) # plen THEN [ok |-> FALSE]
  ELSE LET f == [sport |-> U16(b, 1), dport |-> U16(b, 3), len |-> U16(b, 5), ck |-> U16(b, 7)]
           good == IF checked THEN Verifies(Pseudo(src, dst, 17, plen) \o b) ELSE f.ck = 0
       IN IF good THEN [ok |-> TRUE, f |-> f, used |-> 8] ELSE [ok |-> FALSE]

\* -------------------------------------------------------------------- TCP
EncTcp(f) == B2(f.sport) \o B2(f.dport) \o f.seq \o f.ack \o <<80, f.ctl>> \o B2(f.wnd) \o B2(f.ck) \o B2(f.urg)
DecTcp(b, plen, src, dst, checked) ==
  IF Len(b) < 20 \/ b[13] \div 16 # 5 \/ plen > 65535 THEN [ok |-> FALSE]
  ELSE LET f == [sport |-> U16(b, 1), dport |-> U16(b, 3), seq |-> Sub(b, 5, 4), ack |-> Sub(b, 9, 4), ctl |-> b[14] % 64,
                 wnd |-> U16(b, 15), ck |-> U16(b, 17), urg |-> U16(b, 19)]
           good == IF checked THEN Verifies(Pseudo(src, dst, 6, plen) \o b) ELSE f.ck = 0
       IN IF good THEN [ok |-> TRUE, f |-> f, used |-> 20] ELSE [ok |-> FALSE]

\* -------------------------------------------------------------------- ARP
EncArp(f) == B2(f.htype) \o B2(f.ptype) \o <<f.hlen, f.plen>> \o B2(f.oper) \o f.smac \o f.sip \o f.tmac \o f.tip
DecArp(b) ==
  IF Len(b) < 28 \/ U16(b, 7) \notin {1, 2} THEN [ok |-> FALSE]
  ELSE [ok |-> TRUE, used |-> 28,
        f |-> [htype |-> U16(b, 1), ptype |-> U16(b, 3), hlen |-> b[5], plen |-> b[6], oper |-> U16(b, 7),
               smac |-> Sub(b, 9, 6), sip |-> Sub(b, 15, 4), tmac |-> Sub(b, 19, 6), tip |-> Sub(b, 25, 4)]]

\* -------------------------------------------- delimiter-terminated strings
RECURSIVE Until(_, _, _)
Until(b, i, delim) == IF i > Len(b) THEN 0 ELSE IF b[i] = delim THEN i ELSE Until(b, i + 1, delim)   \* index of the delimiter, 0 if none

\* -------------------------------------------------------------------- DNS
EncDns(f) == B2(f.id) \o B2(f.props) \o B2(f.qd) \o B2(f.an) \o B2(f.ns) \o B2(f.ar)
             \o f.qname \o <<32>> \o B2(f.qtype) \o B2(f.qclass)
             \o f.aname \o <<32>> \o B2(f.atype) \o B2(f.aclass) \o f.ttl \o B2(f.rdlen) \o f.rdata
DecDns(b) ==
  IF Len(b) < 12 THEN [ok |-> FALSE]
  ELSE LET q == Until(b, 13, 32) IN
  IF q = 0 \/ Len(b) < q + 4 THEN [ok |-> FALSE]
  ELSE LET a == Until(b, q + 5, 32) IN
  IF a = 0 \/ Len(b) < a + 10 THEN [ok |-> FALSE]
  ELSE LET rdlen == U16(b, a + 9) IN
  IF Len(b) < a + 10 + rdlen THEN [ok |-> FALSE]
  ELSE [ok |-> TRUE, used |-> a + 10 + rdlen,
        f |-> [id |-> U16(b, 1), props |-> U16(b, 3), qd |-> U16(b, 5), an |-> U16(b, 7), ns |-> U16(b, 9), ar |-> U16(b, 11),
               qname |-> SubSeq(b, 13, q - 1), qtype |-> U16(b, q + 1), qclass |-> U16(b, q + 3),
               aname |-> SubSeq(b, q + 5, a - 1), atype |-> U16(b, a + 1), aclass |-> U16(b, a + 3),
               ttl |-> Sub(b, a + 5, 4), rdlen |-> rdlen, rdata |-> Sub(b, a + 11, rdlen)]]

\* ------------------------------------------------------------------- DHCP
\* op htype hlen hops xid(4) secs(2) flags ciaddr yiaddr siaddr giaddr chaddr(2) type sname NUL file NUL
Utf8Ok(s) == \A i \in 1..Len(s) : s[i] < 128          \* (the harness only uses ASCII or clearly invalid bytes >= 0xf8)
DecDhcp(b) ==
  IF Len(b) < 30 THEN [ok |-> FALSE]
  ELSE LET ty == b[30] IN
  IF ty < 1 \/ ty > 7 THEN [ok |-> FALSE]
  ELSE LET s == Until(b, 31, 0) IN
  IF s = 0 THEN [ok |-> FALSE]
  ELSE LET t == Until(b, s + 1, 0) IN
  IF t = 0 \/ ~Utf8Ok(SubSeq(b, 31, s - 1)) \/ ~Utf8Ok(SubSeq(b, s + 1, t - 1)) THEN [ok |-> FALSE]
  ELSE [ok |-> TRUE, used |-> t, f |-> [type |-> ty, yiaddr |-> Sub(b, 16, 4), op |-> b[1]]]
EncDhcpOf(b) == b        \* re-encoding a decoded message must reproduce the consumed bytes

\* ------------------------------------------------ model: the boundary lattice
\* round trip on the product of boundary values per field (a state machine that walks the lattice)
V8 == {0, 1, 127, 128, 254, 255}
V16 == {0, 1, 255, 256, 32767, 32768, 65534, 65535}
A4 == {<<0, 0, 0, 0>>, <<255, 255, 255, 255>>, <<10, 0, 0, 1>>, <<127, 128, 1, 254>>}
VARIABLES kind, h
Ipv4Lattice == [tos : {0, 4, 252}, tl : {20, 21, 65535}, id : {0, 65535, 256}, df : BOOLEAN, mf : BOOLEAN, fo : {0, 1, 255, 256, 8191},
                ttl : {0, 1, 255}, proto : {0, 6, 17, 255}, ck : {0}, src : {<<0, 0, 0, 0>>, <<255, 255, 255, 255>>}, dst : {<<10, 0, 0, 1>>, <<127, 128, 1, 254>>}]
UdpLattice == [sport : V16, dport : V16, len : {8, 9, 65535}, ck : {0}]
TcpLattice == [sport : {0, 65535, 256}, dport : {1, 65534}, seq : A4, ack : A4, ctl : 0..63, wnd : {0, 1, 65535}, ck : {0}, urg : {0, 65535}]
ArpLattice == [htype : {1}, ptype : {2048}, hlen : {6}, plen : {4}, oper : {1, 2},
               smac : {<<0, 0, 0, 0, 0, 0>>, <<255, 255, 255, 255, 255, 255>>, <<0, 0, 0, 0, 1, 0>>}, sip : A4, tmac : {<<0, 0, 0, 0, 0, 69>>}, tip : A4]
Names == {<<>>, <<97>>, <<97, 46, 98>>, <<0, 255>>}
DnsLattice == [id : {0, 65535}, props : {0, 32768}, qd : {0}, an : {0}, ns : {0}, ar : {0, 1}, qname : Names, qtype : {1}, qclass : {1, 65535},
               aname : Names, atype : {1}, aclass : {1}, ttl : {<<0, 0, 0, 0>>, <<255, 255, 255, 255>>}, rdlen : {4}, rdata : A4]
Init == kind \in {"ipv4", "udp", "tcp", "arp", "dns"} /\
        h \in CASE kind = "ipv4" -> Ipv4Lattice [] kind = "udp" -> UdpLattice [] kind = "tcp" -> TcpLattice
                [] kind = "arp" -> ArpLattice [] kind = "dns" -> DnsLattice
Next == UNCHANGED <<kind, h>>
Spec == Init /\ [][Next]_<<kind, h>>
RoundTrip ==
  CASE kind = "ipv4" -> LET d == DecIpv4(EncIpv4(h), FALSE) IN d.ok /\ d.f = h /\ Len(EncIpv4(h)) = 20
    [] kind = "udp" -> LET d == DecUdp(EncUdp(h), h.len, <<1, 2, 3, 4>>, <<5, 6, 7, 8>>, FALSE) IN d.ok /\ d.f = h
    [] kind = "tcp" -> LET d == DecTcp(EncTcp(h), 20, <<1, 2, 3, 4>>, <<5, 6, 7, 8>>, FALSE) IN d.ok /\ d.f = h /\ Len(EncTcp(h)) = 20
    [] kind = "arp" -> LET d == DecArp(EncArp(h)) IN d.ok /\ d.f = h /\ Len(EncArp(h)) = 28
    [] kind = "dns" -> LET d == DecDns(EncDns(h)) IN
                       (\A i \in 1..Len(h.qname) : h.qname[i] # 32) /\ (\A i \in 1..Len(h.aname) : h.aname[i] # 32) => (d.ok /\ d.f = h /\ d.used = Len(EncDns(h)))
\* RFC 1071: a packet carrying the checksum of the rest verifies; corrupting one 16-bit word by a value that is not
\* a multiple of 65535 is detected
CkWords == {0, 1, 32767, 32768, 65534, 65535}
CksumLaw == \A a \in CkWords, b \in CkWords, c \in CkWords :
              LET data == B2(a) \o B2(b) \o B2(c)  ck == Cksum(data) IN
              /\ Verifies(data \o B2(ck))
              /\ \A d \in {1, 255, 256, 32768} :
                    LET a2 == (a + d) % 65536 IN
                    \* (0x0000 and 0xffff are the same number in one's complement: that change is not detectable)
                    ((a2 - a) % 65535 # 0) => ~Verifies(B2(a2) \o B2(b) \o B2(c) \o B2(ck))
=============================================================================
