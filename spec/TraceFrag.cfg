SPECIFICATION TSpec
CONSTANTS
  MaxLen = 0
  MtuLo = 0
  MtuHi = 0
CONSTRAINT Report
POSTCONDITION Final
CHECK_DEADLOCK FALSE
