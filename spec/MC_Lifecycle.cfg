SPECIFICATION Spec
CONSTANTS
  Procs <- P4
  Behaviour <- BehB
  Init0 <- IniA
  ReqAt <- ReqA
  T = 3
  Cap = 2
  FirstWins = TRUE
INVARIANTS Barrier Status Bound NoHangForever
CHECK_DEADLOCK FALSE
