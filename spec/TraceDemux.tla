----------------------------- MODULE TraceDemux -----------------------------
(***************************************************************************)
(* C04 on the real Udp / Ipv4 / (Arp) / Pci stack.  Property-level state:  *)
(* per machine the endpoint -> application bindings in force (the first    *)
(* successful bind of an endpoint), and the datagrams that were sent.      *)
(*   bind   : a second bind of an endpoint on a machine must be refused    *)
(*   demux  : only the entitled application (exact (A,P), else (ANY,P)),   *)
(*            payload / source endpoint / destination endpoint unchanged   *)
(*   answer : a datagram sent through the session that delivered another   *)
(*            one travels from the endpoint that one was addressed to, to  *)
(*            the endpoint it came from, and is demultiplexed there like   *)
(*            any other datagram                                           *)
(*   end    : on the loss-free link every entitled listener on every       *)
(*            machine the frame reaches got the datagram exactly once      *)
(***************************************************************************)
EXTENDS Integers, Sequences, FiniteSets, TLC, Json, IOUtils
Rec == ndJsonDeserialize(IOEnv.TRACE)
VARIABLES l, s
ANY == <<0, 0, 0, 0>>
T(x) == <<x[1], x[2], x[3], x[4]>>
Init0 == [run |-> -1, arps |-> <<>>, mtu |-> 0, nm |-> 0, bound |-> {}, sent |-> {}, dem |-> {},
          bad |-> {}, nbad |-> 0, runs |-> 0, events |-> 0, nreply |-> 0, ndem |-> 0, nrdem |-> 0]
Viol(t, e, clause) ==
  IF Cardinality({x \in t.bad : x.clause = clause}) >= 3 THEN [t EXCEPT !.nbad = @ + 1]
  ELSE [t EXCEPT !.bad = @ \cup {[run |-> t.run, i |-> e.i, clause |-> clause]}, !.nbad = @ + 1]
\* the application entitled to (A, P) on machine m: -1 if none
Entitled(t, m, a, p) ==
  LET ex == {b \in t.bound : b.m = m /\ b.addr = a /\ b.port = p}
      wi == {b \in t.bound : b.m = m /\ b.addr = ANY /\ b.port = p}
  IN IF ex # {} THEN (CHOOSE b \in ex : TRUE).app ELSE IF wi # {} THEN (CHOOSE b \in wi : TRUE).app ELSE -1
Owner(a) == a[4] \div 10                          \* the harness gives machine k the addresses 10.0.0.(10k+1|2)
Step(t, e) ==
  LET t0 == [t EXCEPT !.events = @ + 1] IN
  CASE e.ev = "reset" -> [t0 EXCEPT !.run = e.run, !.runs = @ + 1, !.arps = e.arps, !.mtu = e.mtu, !.nm = e.nm,
                                   !.bound = {}, !.sent = {}, !.dem = {}]
    [] e.ev = "bind" ->
         LET taken == \E b \in t.bound : b.m = e.m /\ b.addr = T(e.addr) /\ b.port = e.port
             t1 == IF e.ok = ~taken THEN t0
                   ELSE Viol(t0, e, IF taken THEN "a second bind of an endpoint already bound on the machine was accepted"
                                    ELSE "a bind of a free endpoint was refused")
         IN IF ~taken /\ e.ok THEN [t1 EXCEPT !.bound = @ \cup {[m |-> e.m, app |-> e.app, addr |-> T(e.addr), port |-> e.port]}] ELSE t1
    [] e.ev = "dsend" ->
         LET t1 == IF e.res = "sent" /\ e.len + 28 > t.mtu THEN Viol(t0, e, "a datagram larger than the MTU allows was sent") ELSE t0
         IN IF e.res = "sent"
            THEN [t1 EXCEPT !.sent = @ \cup {[id |-> e.id, m |-> e.m, src |-> T(e.src), sport |-> e.sport, dst |-> T(e.dst), dport |-> e.dport, len |-> e.len, reply |-> e.reply]},
                          !.nreply = @ + (IF e.reply THEN 1 ELSE 0)]
            ELSE t1
    [] e.ev = "demux" ->
         LET ds == {d \in t.sent : d.id = e.id \/ (e.len = 0 /\ d.len = 0)}
             t1 == IF ds = {} THEN Viol(t0, e, "an application received a datagram that nobody sent")
                   ELSE LET d == CHOOSE x \in ds : TRUE IN
                        IF ~(e.intact /\ e.len = d.len) THEN Viol(t0, e, "payload altered")
                        ELSE IF ~(T(e.src) = d.src /\ e.sport = d.sport) THEN Viol(t0, e, "source address or port attached to the datagram is not the true source")
                        ELSE IF ~(T(e.dst) = d.dst /\ e.dport = d.dport) THEN Viol(t0, e, "destination endpoint altered")
                        ELSE IF Entitled(t, e.m, d.dst, d.dport) # e.app
                        THEN Viol(t0, e, "delivered to an application that is not the one bound to (address, port) [exact binding first, then the wildcard address]")
                        ELSE IF \E x \in t.dem : x.m = e.m /\ x.id = d.id THEN Viol(t0, e, "datagram delivered twice on one machine")
                        ELSE t0
             did == IF ds = {} THEN -1 ELSE (CHOOSE x \in ds : TRUE).id
         IN [t1 EXCEPT !.dem = @ \cup {[m |-> e.m, app |-> e.app, id |-> did]}, !.ndem = @ + 1, !.nrdem = @ + (IF did > 100 /\ did < 200 THEN 1 ELSE 0)]
    [] e.ev = "end" ->
         \* on a loss-free link the entitled listener of every machine the frame reaches got it
         \* (an answer sent through the session that delivered a datagram is addressed to the hardware address it came from)
         LET Reach(d) == IF t.arps[d.m + 1] \/ d.reply THEN {Owner(d.dst)} \cap (0..(t.nm - 1)) ELSE 0..(t.nm - 1)
             missing == {d \in t.sent : \E m \in Reach(d) :
                           Entitled(t, m, d.dst, d.dport) >= 0 /\ ~\E x \in t.dem : x.m = m /\ x.id = d.id}
         IN IF missing = {} THEN t0 ELSE Viol(t0, e, "a datagram did not reach the application bound to its address and port")
    [] e.ev = "panic" -> Viol(t0, e, "panic: " \o e.msg \o " at " \o e.loc)
    [] e.ev = "hang" -> Viol(t0, e, "the scenario never ended: the code under test kept producing events without bound or stopped making progress (" \o e.why \o ")")
    [] OTHER -> t0
Init == l = 1 /\ s = Init0
Next == l <= Len(Rec) /\ s' = Step(s, Rec[l]) /\ l' = l + 1
Spec == Init /\ [][Next]_<<l, s>>
Report == TLCSet(1, [bad |-> s.bad, nbad |-> s.nbad, runs |-> s.runs, events |-> s.events, deliveries |-> s.ndem, answers_sent |-> s.nreply, answers_delivered |-> s.nrdem])
Final == /\ PrintT(<<"TRACE-RESULT", ToJson(TLCGet(1))>>)
         /\ PrintT(<<"TRACE-SUMMARY", ToJson([events |-> Len(Rec), consumed |-> TLCGet("stats").diameter - 1])>>)
=============================================================================
