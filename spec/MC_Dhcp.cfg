SPECIFICATION Spec
CONSTANTS
  Clients = {"c1", "c2", "c3"}
  Pool = {1, 2, 3, 4, 5}
  Dups = 1
INVARIANTS Distinct InPool Learned HeldNotFree
CHECK_DEADLOCK FALSE
