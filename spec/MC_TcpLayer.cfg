SPECIFICATION Spec
CONSTANTS
  Addrs = {"s1", "x"}
  Ports = {80}
  Apps = {0, 1}
  Remotes = {"r1"}
INVARIANTS OneListenerPerEndpoint OneSessionPerEndpoints PassiveNeedsAddress
PROPERTIES KeepsOwner NeverRemoved ExactWins Isolation
CHECK_DEADLOCK FALSE
