------------------------------ MODULE TraceDhcp ------------------------------
(***************************************************************************)
(* C15, second sentence, on a real DhcpServer and real DhcpClients.        *)
(* Property-level state: the pool, the leases the clients ended up with,   *)
(* the DHCP frames seen on the wire (type, your-ip, destination MAC), the   *)
(* released addresses.                                                     *)
(*   Distinct : leases of different clients are pairwise distinct          *)
(*   InPool   : every lease is an address of the configured pool           *)
(*   Learned  : a client's lease is an address the server offered and      *)
(*              acknowledged to that client                                *)
(*   Everyone : every client gets a lease (no loss in these runs)          *)
(*   Reuse    : a released address is available again                      *)
(***************************************************************************)
EXTENDS Integers, Sequences, FiniteSets, TLC, Json, IOUtils
Rec == ndJsonDeserialize(IOEnv.TRACE)
VARIABLES l, s
T(x) == <<x[1], x[2], x[3], x[4]>>
Lt(x, y) == \E k \in 1..4 : x[k] < y[k] /\ \A j \in 1..(k - 1) : x[j] = y[j]
Leq(x, y) == x = y \/ Lt(x, y)
Init0 == [run |-> -1, lo |-> <<0, 0, 0, 0>>, hi |-> <<0, 0, 0, 0>>, nc |-> 0, macs |-> {}, leases |-> {}, wires |-> {}, released |-> {}, none |-> {},
          bad |-> {}, nbad |-> 0, runs |-> 0, events |-> 0]
Viol(t, e, clause) ==
  IF Cardinality({x \in t.bad : x.clause = clause}) >= 3 THEN [t EXCEPT !.nbad = @ + 1]
  ELSE [t EXCEPT !.bad = @ \cup {[run |-> t.run, i |-> e.i, clause |-> clause]}, !.nbad = @ + 1]
Step(t, e) ==
  LET t0 == [t EXCEPT !.events = @ + 1] IN
  CASE e.ev = "reset" -> [t0 EXCEPT !.run = e.run, !.runs = @ + 1, !.lo = T(e.lo), !.hi = T(e.hi), !.nc = e.nc,
                                   !.macs = {}, !.leases = {}, !.wires = {}, !.released = {}, !.none = {}]
    [] e.ev = "client" -> [t0 EXCEPT !.macs = @ \cup {[c |-> e.c, mac |-> e.mac]}]
    [] e.ev = "dhcpwire" -> [t0 EXCEPT !.wires = @ \cup {[type |-> e.type, yip |-> T(e.yip), dmac |-> e.dmac, smac |-> e.smac]}]
    [] e.ev = "nolease" -> [t0 EXCEPT !.none = @ \cup {e.c}]
    [] e.ev = "lease" ->
         LET ip == T(e.ip)
             mac == (CHOOSE m \in t.macs : m.c = e.c).mac
             t1 == IF Leq(t.lo, ip) /\ Leq(ip, t.hi) THEN t0 ELSE Viol(t0, e, "a client was leased an address outside the server's pool")
             t2 == IF \E x \in t.leases : x.ip = ip /\ x.c # e.c THEN Viol(t1, e, "two clients hold the same lease") ELSE t1
             t3 == IF (\E w \in t.wires : w.type = 2 /\ w.yip = ip /\ w.dmac = mac) /\ (\E w \in t.wires : w.type = 5 /\ w.yip = ip /\ w.dmac = mac)
                   THEN t2 ELSE Viol(t2, e, "a client learned an address that the server did not offer and acknowledge to it")
         IN [t3 EXCEPT !.leases = @ \cup {[c |-> e.c, ip |-> ip]}]
    [] e.ev = "release" -> [t0 EXCEPT !.released = @ \cup {T(e.ip)}]
    [] e.ev = "drained" ->
         LET free == {T(e.free[k]) : k \in 1..Len(e.free)}
             t1 == IF t.released \subseteq free THEN t0 ELSE Viol(t0, e, "a released address cannot be leased again")
             held == {x.ip : x \in {y \in t.leases : y.ip \notin t.released}}
             t2 == IF held \cap free = {} THEN t1 ELSE Viol(t1, e, "an address that is still leased to a client is free in the server's pool")
         IN IF t.none = {} /\ Cardinality({x.c : x \in t.leases}) = t.nc THEN t2
            ELSE Viol(t2, e, "a client did not obtain a lease although the pool was large enough and no frame was lost")
    [] e.ev = "panic" -> Viol(t0, e, "panic: " \o e.msg \o " at " \o e.loc)
    [] e.ev = "hang" -> Viol(t0, e, "the scenario never ended: the code under test kept producing events without bound or stopped making progress (" \o e.why \o ")")
    [] OTHER -> t0
Init == l = 1 /\ s = Init0
Next == l <= Len(Rec) /\ s' = Step(s, Rec[l]) /\ l' = l + 1
Spec == Init /\ [][Next]_<<l, s>>
Report == TLCSet(1, [bad |-> s.bad, nbad |-> s.nbad, runs |-> s.runs, events |-> s.events])
Final == /\ PrintT(<<"TRACE-RESULT", ToJson(TLCGet(1))>>)
         /\ PrintT(<<"TRACE-SUMMARY", ToJson([events |-> Len(Rec), consumed |-> TLCGet("stats").diameter - 1])>>)
=============================================================================
