------------------------------ MODULE SockPipe ------------------------------
(***************************************************************************)
(* C02.  The stream pipeline between two applications: Socket::send ->     *)
(* TcpSession instruction queue -> TCB (here an abstract reliable ordered  *)
(* byte pipe: that is C01) -> TcpSession loop `tcb.receive()` re-chunks    *)
(* the stream into messages -> SocketSession::receive (try_send into a     *)
(* bounded queue, or stored until accept) -> Socket::recv(n) (stored       *)
(* remainder first, then queued messages, never more than n bytes).        *)
(* Bytes are stream positions.  Constants select the behaviour of the code *)
(* as found (finding F3: one task per write; F2: budget) for the record.   *)
(* accept() is two critical sections of the code: get_socket_session makes *)
(* the socket's queue visible to deliveries (AcceptTake), then             *)
(* receive_stored_messages hands the backlog over (AcceptDrain).  On the   *)
(* current_thread runtime no delivery can fall between them ("atomic"); on *)
(* a multi_thread runtime one can.  As found ("asfound") such a delivery   *)
(* went straight into the queue, overtaking the backlog, and the hand-over *)
(* itself moved message by message with deliveries in between (finding     *)
(* F25, reproduced on the code by `hv-core sockrace-drive`); after the     *)
(* repair ("guarded") a delivery that finds a backlog joins it and the     *)
(* hand-over is one step under the backlog lock.                           *)
(***************************************************************************)
EXTENDS Integers, Sequences, FiniteSets, TLC
CONSTANTS Writes,          \* sequence of write lengths
          ReadSizes,       \* set of n for recv(n)
          QCap,            \* capacity of the socket's message queue (255 in the code)
          TaskPerWrite,    \* TRUE: as found (a spawned task per write, any order); FALSE: after the F3 repair
          BudgetBug,       \* TRUE: as found (second loop compares with n, not with what is left of n)
          AcceptMode       \* "atomic" | "asfound" | "guarded" (see above)
VARIABLES wr, tasks, instr, inflight, sockQ, stored, out, lastRead, dropped, accepted, backlog, ready
vars == <<wr, tasks, instr, inflight, sockQ, stored, out, lastRead, dropped, accepted, backlog, ready>>
Total == LET S[i \in 0..Len(Writes)] == IF i = 0 THEN 0 ELSE S[i - 1] + Writes[i] IN S[Len(Writes)]
Start(k) == LET S[i \in 0..Len(Writes)] == IF i = 0 THEN 0 ELSE S[i - 1] + Writes[i] IN S[k - 1]
Bytes(k) == [i \in 1..Writes[k] |-> Start(k) + i]
Init == /\ wr = 0 /\ tasks = {} /\ instr = <<>> /\ inflight = <<>> /\ sockQ = <<>> /\ stored = <<>>
        /\ out = <<>> /\ lastRead = [n |-> 0, len |-> 0] /\ dropped = 0 /\ accepted = FALSE /\ backlog = <<>> /\ ready = FALSE
\* application write k
SockSend == /\ wr < Len(Writes) /\ wr' = wr + 1
            /\ IF TaskPerWrite THEN tasks' = tasks \cup {wr + 1} /\ UNCHANGED instr
               ELSE instr' = Append(instr, wr + 1) /\ UNCHANGED tasks
            /\ UNCHANGED <<inflight, sockQ, stored, out, lastRead, dropped, accepted, backlog, ready>>
\* a spawned task gets to run and queues its instruction
TaskRun(k) == /\ k \in tasks /\ tasks' = tasks \ {k} /\ instr' = Append(instr, k)
              /\ UNCHANGED <<wr, inflight, sockQ, stored, out, lastRead, dropped, accepted, backlog, ready>>
\* the TcpSession loop hands the write to the TCB; the TCB is a reliable ordered pipe
InstrDequeue == /\ instr # <<>> /\ instr' = Tail(instr) /\ inflight' = inflight \o Bytes(Head(instr))
                /\ UNCHANGED <<wr, tasks, sockQ, stored, out, lastRead, dropped, accepted, backlog, ready>>
\* the receiving TcpSession delivers the next m bytes as one message (any chunking)
SessReceive(m) ==
  /\ m \in 1..Len(inflight)
  /\ LET msg == SubSeq(inflight, 1, m) IN
     /\ inflight' = SubSeq(inflight, m + 1, Len(inflight))
     /\ IF ~accepted \/ (AcceptMode = "guarded" /\ backlog # <<>>) THEN backlog' = Append(backlog, msg) /\ UNCHANGED <<sockQ, dropped>>
        ELSE IF Len(sockQ) < QCap THEN sockQ' = Append(sockQ, msg) /\ UNCHANGED <<dropped, backlog>>
        ELSE dropped' = dropped + 1 /\ UNCHANGED <<sockQ, backlog>>          \* try_send fails: the bytes are lost (finding K1)
  /\ UNCHANGED <<wr, tasks, instr, stored, out, lastRead, accepted, ready>>
\* accept(), first critical section: the socket's queue becomes visible to deliveries
AcceptTake == /\ ~accepted /\ accepted' = TRUE
              /\ IF AcceptMode = "atomic" THEN sockQ' = sockQ \o backlog /\ backlog' = <<>> /\ ready' = TRUE
                 ELSE UNCHANGED <<sockQ, backlog, ready>>
              /\ UNCHANGED <<wr, tasks, instr, inflight, stored, out, lastRead, dropped>>
\* accept(), second critical section: the messages stored before the socket existed are replayed into the queue --
\* as found one try_send at a time with no lock a delivery respects, after the repair in one step under the backlog lock
AcceptDrain == /\ accepted /\ ~ready /\ AcceptMode # "atomic"
               /\ IF backlog = <<>> THEN ready' = TRUE /\ UNCHANGED <<sockQ, backlog>>
                  ELSE IF AcceptMode = "asfound" THEN sockQ' = Append(sockQ, Head(backlog)) /\ backlog' = Tail(backlog) /\ UNCHANGED ready
                  ELSE sockQ' = sockQ \o backlog /\ backlog' = <<>> /\ ready' = TRUE
               /\ UNCHANGED <<wr, tasks, instr, inflight, stored, out, lastRead, dropped, accepted>>
\* Socket::recv(n)
RECURSIVE Fill(_, _, _, _)
Fill(buf, q, st, n) ==          \* the `while buf.len() < bytes` loop with try_recv
  IF Len(buf) >= n \/ q = <<>> THEN [buf |-> buf, q |-> q, st |-> st]
  ELSE LET msg == Head(q)
           room == IF BudgetBug THEN n ELSE n - Len(buf) IN
       IF Len(msg) <= room THEN Fill(buf \o msg, Tail(q), st, n)
       ELSE [buf |-> buf \o SubSeq(msg, 1, room), q |-> Tail(q), st |-> SubSeq(msg, room + 1, Len(msg))]
Recv(n) ==
  /\ ready /\ (stored # <<>> \/ sockQ # <<>>)          \* (accept() returns the socket after the hand-over)
  /\ LET b0 == IF Len(stored) <= n THEN stored ELSE SubSeq(stored, 1, n)
         s0 == IF Len(stored) <= n THEN <<>> ELSE SubSeq(stored, n + 1, Len(stored))
         r == IF s0 # <<>> THEN [buf |-> b0, q |-> sockQ, st |-> s0] ELSE Fill(b0, sockQ, <<>>, n) IN
     /\ out' = out \o r.buf /\ sockQ' = r.q /\ stored' = r.st
     /\ lastRead' = [n |-> n, len |-> Len(r.buf)]
  /\ UNCHANGED <<wr, tasks, instr, inflight, dropped, accepted, backlog, ready>>
Next == SockSend \/ (\E k \in tasks : TaskRun(k)) \/ InstrDequeue \/ (\E m \in 1..3 : SessReceive(m)) \/ AcceptTake \/ AcceptDrain
        \/ (\E n \in ReadSizes : Recv(n))
Spec == Init /\ [][Next]_vars
\* C02 ---------------------------------------------------------------------
StreamInv == \A i \in 1..Len(out) : out[i] = i            \* exactly the concatenation of the writes, in order
RecvBound == lastRead.len <= lastRead.n
NoDrop == dropped = 0
Complete == (~ENABLED Next) => Len(out) = Total
=============================================================================
