SPECIFICATION Spec
CONSTANT M = 16
INVARIANTS OldLeqDefect
CHECK_DEADLOCK FALSE
