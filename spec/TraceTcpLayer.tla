--------------------------- MODULE TraceTcpLayer ---------------------------
(***************************************************************************)
(* The TCP protocol layer of the running stack (tcp.rs, tcp_session.rs),   *)
(* judged on real executions recorded by `hv-core tcpl-drive`: harness     *)
(* applications call Tcp::listen / Tcp::open directly, a tap-only machine  *)
(* puts hand-made segments on the wire, the frame hook records every TCP   *)
(* segment.  The rules are those of TcpLayer.tla (what Tcp::demux does):   *)
(*   - a segment for which a session exists goes to the session;           *)
(*   - otherwise the listener bound to exactly the destination endpoint    *)
(*     decides, else the one bound to 0.0.0.0:port (a later listen on an   *)
(*     endpoint replaces the earlier one); for a listener RFC 9293         *)
(*     3.10.7.2: RST ignored, ACK -> <SEQ=SEG.ACK><CTL=RST>, SYN -> a new  *)
(*     session answering <ACK=SEG.SEQ+1><CTL=SYN,ACK>;                     *)
(*   - otherwise 3.10.7.1 (CLOSED): RST ignored, ACK -> <SEQ=SEG.ACK>      *)
(*     <CTL=RST>, else <SEQ=0><ACK=SEG.SEQ+text length><CTL=RST,ACK>       *)
(*     (named deviation of the code: the text length, not SEG.LEN, so a    *)
(*     SYN to a closed port is "acknowledged" one short and the opener     *)
(*     does not take the reset);                                           *)
(*   - a connection is announced to the application that opened it or that *)
(*     owns the listener which accepted it, exactly once per side;         *)
(*   - bytes delivered on a connection are the bytes its peer wrote, in    *)
(*     order, each once; connections do not mix;                           *)
(*   - opening endpoints for which a session exists is refused.            *)
(* Addresses are 4-tuples, endpoints <<address, port>>; sequence numbers   *)
(* are logged modulo 2^30.                                                 *)
(***************************************************************************)
EXTENDS Integers, Sequences, FiniteSets, TLC, Json, IOUtils
Rec == ndJsonDeserialize(IOEnv.TRACE)
VARIABLES l, s
M30 == 1073741824
ANY == <<0, 0, 0, 0>>
T(a) == <<a[1], a[2], a[3], a[4]>>
E(x) == <<T(x[1]), x[2]>>
Has(c, b) == (c \div b) % 2 = 1
SYN == 2  RST == 4  ACK == 16
Init0 == [run |-> -1, lst |-> {}, sess |-> {}, opens |-> {}, news |-> {}, expect |-> {}, data |-> {}, endT |-> 0,
          bad |-> {}, nbad |-> 0, runs |-> 0, events |-> 0, nexp |-> 0, nmatch |-> 0, nnew |-> 0, nbytes |-> 0]
Viol(t, e, clause) ==
  IF Cardinality({b \in t.bad : b.clause = clause}) >= 2 \/ Cardinality(t.bad) >= 12 THEN [t EXCEPT !.nbad = @ + 1]
  ELSE [t EXCEPT !.nbad = @ + 1, !.bad = @ \cup {[run |-> t.run, i |-> e.i, clause |-> clause]}]
\* the application bound to endpoint L of the server: exact binding first, else the wildcard; -1 if none
Listener(t, L) ==
  LET ex == {b \in t.lst : b.ep = L}
      wi == {b \in t.lst : b.ep = <<ANY, L[2]>>}
  IN IF ex # {} THEN (CHOOSE b \in ex : TRUE).app ELSE IF wi # {} THEN (CHOOSE b \in wi : TRUE).app ELSE -1
\* the server's IPv4 layer hands a datagram to TCP if TCP listens on its destination address or on 0.0.0.0
IpAccepts(t, addr) == \E b \in t.lst : b.ep[1] = addr \/ b.ep[1] = ANY
\* what the server must put on the wire in answer to segment w (no session for its endpoints)
Answer(t, w) ==
  LET L == <<w.dst, w.dport>>  R == <<w.src, w.sport>>
      base == [from |-> L, to |-> R, i |-> w.i, t |-> w.t, acks |-> {}]
  IN IF ~IpAccepts(t, w.dst) \/ Has(w.ctl, RST) THEN {}
     ELSE IF Has(w.ctl, ACK) THEN {[base EXCEPT !.acks = {-1}] @@ [ctl |-> RST, seq |-> w.ack]}
     ELSE IF Listener(t, L) # -1
          THEN (IF Has(w.ctl, SYN) THEN {[base EXCEPT !.acks = {(w.seq + 1) % M30, (w.seq + 1 + w.len) % M30}] @@ [ctl |-> SYN + ACK, seq |-> -1]} ELSE {})
          ELSE {[base EXCEPT !.acks = {(w.seq + w.len) % M30}] @@ [ctl |-> RST + ACK, seq |-> 0]}
Creates(t, w) == IpAccepts(t, w.dst) /\ ~Has(w.ctl, RST) /\ ~Has(w.ctl, ACK) /\ Has(w.ctl, SYN) /\ Listener(t, <<w.dst, w.dport>>) # -1
Matches(x, w) == x.from = <<w.src, w.sport>> /\ x.to = <<w.dst, w.dport>> /\ x.ctl = w.ctl /\ (x.seq = -1 \/ x.seq = w.seq) /\
                 (-1 \in x.acks \/ w.ack \in x.acks)
Wire(t, e) ==
  LET w == [src |-> T(e.src), dst |-> T(e.dst), sport |-> e.sport, dport |-> e.dport, ctl |-> e.ctl % 64, seq |-> e.seq, ack |-> e.ack,
            len |-> e.len, i |-> e.i, t |-> e.t]
      L == <<w.dst, w.dport>>  R == <<w.src, w.sport>>
  IN IF e.sender = 0
     THEN \* a segment of the server: it may be the answer to an earlier segment
          LET c == {x \in t.expect : Matches(x, w)} IN
          IF c = {} THEN t ELSE LET x == CHOOSE y \in c : \A z \in c : y.i <= z.i IN [t EXCEPT !.expect = @ \ {x}, !.nmatch = @ + 1]
     ELSE IF <<L, R>> \in t.sess THEN t
     ELSE LET t1 == [t EXCEPT !.expect = @ \cup Answer(t, w), !.nexp = @ + Cardinality(Answer(t, w))] IN
          IF Creates(t, w) THEN [t1 EXCEPT !.sess = @ \cup {<<L, R>>}] ELSE t1
Step(t, e) ==
  LET t0 == [t EXCEPT !.events = @ + 1] IN
  CASE e.ev = "reset" ->
         [t0 EXCEPT !.run = e.run, !.runs = @ + 1, !.lst = {}, !.sess = {}, !.opens = {}, !.news = {}, !.expect = {}, !.data = {}]
    [] e.ev = "tlisten" ->
         LET ep == <<T(e.addr), e.port>> IN
         IF e.m # 0 THEN t0 ELSE [t0 EXCEPT !.lst = {b \in @ : b.ep # ep} \cup {[ep |-> ep, app |-> e.app]}]
    [] e.ev = "topen" ->
         LET L == E(e.local)  R == E(e.remote)
             dup == \E o \in t.opens : o.m = e.m /\ o.L = L /\ o.R = R
             t1 == IF dup /\ e.res # "existing" THEN Viol(t0, e, "endpoints for which a session exists were opened again")
                   ELSE IF ~dup /\ e.res # "ok" THEN Viol(t0, e, "an open of unused endpoints was refused") ELSE t0
         IN IF e.res = "ok" THEN [t1 EXCEPT !.opens = @ \cup {[m |-> e.m, app |-> e.app, L |-> L, R |-> R, bytes |-> e.bytes]}] ELSE t1
    [] e.ev = "twire" -> Wire(t0, e)
    [] e.ev = "tnew" ->
         LET L == E(e.local)  R == E(e.remote)
             mine == {o \in t.opens : o.m = e.m /\ o.L = L /\ o.R = R}
             t1 == IF \E n \in t.news : n.m = e.m /\ n.L = L /\ n.R = R THEN Viol(t0, e, "a connection was announced twice") ELSE t0
             t2 == IF mine # {}
                   THEN (IF \E o \in mine : o.app = e.app THEN t1 ELSE Viol(t1, e, "an opened connection was announced to another application than the opener"))
                   ELSE IF e.m # 0 \/ <<L, R>> \notin t.sess
                        THEN Viol(t1, e, "a connection was announced for which no SYN reached a listener")
                        ELSE IF Listener(t, L) = e.app THEN t1
                             ELSE Viol(t1, e, "a connection was announced to an application that does not own the listener (exact binding first, else wildcard)")
         IN [t2 EXCEPT !.news = @ \cup {[m |-> e.m, L |-> L, R |-> R, send |-> e.send]}, !.nnew = @ + 1]
    [] e.ev = "tdata" ->
         LET L == E(e.local)  R == E(e.remote)
             k == <<e.m, L, R>>
             sofar == IF \E d \in t.data : d.k = k THEN (CHOOSE d \in t.data : d.k = k).n ELSE 0
             peer == {n \in t.news : n.L = R /\ n.R = L}
             t1 == IF ~e.intact \/ e.off # sofar THEN Viol(t0, e, "bytes delivered on a connection are not the next bytes its peer wrote") ELSE t0
             t2 == IF peer = {} \/ \E n \in peer : sofar + e.len > n.send
                   THEN Viol(t1, e, "more bytes were delivered on a connection than its peer wrote (or the peer is not connected)") ELSE t1
         IN [t2 EXCEPT !.data = {d \in @ : d.k # k} \cup {[k |-> k, n |-> sofar + e.len]}, !.nbytes = @ + e.len]
    [] e.ev = "end" ->
         LET late == {x \in t.expect : e.t - x.t >= 300000}
             t1 == IF late = {} THEN t0
                   ELSE Viol(t0, e, "a segment for which no session exists was not answered as RFC 9293 3.10.7.1 / 3.10.7.2 prescribe (listen: SYN-ACK / reset of an ACK; closed: reset)")
             \* every connection opened to a listening endpoint of the server is announced on both sides and its bytes arrive
             want == {o \in t.opens : IpAccepts(t, o.R[1]) /\ Listener(t, o.R) # -1}
             t2 == IF \A o \in want : (\E n \in t.news : n.m = o.m /\ n.L = o.L /\ n.R = o.R) /\ (\E n \in t.news : n.m = 0 /\ n.L = o.R /\ n.R = o.L)
                   THEN t1 ELSE Viol(t1, e, "a connection opened to a listening endpoint was not announced on both sides")
             t3 == IF \A n \in t.news : n.send = 0 \/ ~(\E p \in t.news : p.L = n.R /\ p.R = n.L) \/
                                        \E d \in t.data : d.k[2] = n.R /\ d.k[3] = n.L /\ d.n = n.send
                   THEN t2 ELSE Viol(t2, e, "bytes written on an established connection never arrived")
         IN t3
    [] e.ev = "panic" -> Viol(t0, e, "panic: " \o e.msg \o " at " \o e.loc)
    [] e.ev = "hang" -> Viol(t0, e, "the scenario never ended (" \o e.why \o ")")
    [] OTHER -> t0
Init == l = 1 /\ s = Init0
Next == l <= Len(Rec) /\ s' = Step(s, Rec[l]) /\ l' = l + 1
Spec == Init /\ [][Next]_<<l, s>>
Report == TLCSet(1, [bad |-> s.bad, nbad |-> s.nbad, runs |-> s.runs, events |-> s.events, answers_expected |-> s.nexp, answers_seen |-> s.nmatch,
                     connections_announced |-> s.nnew, bytes_delivered |-> s.nbytes])
Final == /\ PrintT(<<"TRACE-RESULT", ToJson(TLCGet(1))>>)
         /\ PrintT(<<"TRACE-SUMMARY", ToJson([events |-> Len(Rec), consumed |-> TLCGet("stats").diameter - 1])>>)
=============================================================================
