------------------------------ MODULE Lifecycle ------------------------------
(***************************************************************************)
(* C13.  internet.rs / machine.rs / shutdown.rs: every protocol is a       *)
(* process  init* -> Arrive -> (Barrier) -> Release -> post*, the barrier  *)
(* releases when all protocols have arrived; after release a protocol may  *)
(* put frames on the wire, request a shutdown with a status, finish, or    *)
(* never finish.  Requests go into a bounded broadcast channel (capacity   *)
(* Cap); since the F19 repair only the first request is sent.  The timeout *)
(* task sends TimedOut through the same path at time T; the run returns    *)
(* the oldest retained status; an outer timeout at T + 1 returns TimedOut. *)
(* (Exited-because-all-senders-are-gone exists only in runs without a      *)
(* timeout: the timer task of a timed run keeps the channel open, so a     *)
(* timed run in which nobody asks ends TimedOut even with no machine at    *)
(* all.  Every run modelled here is timed.)  Time: ticks 0..T+1.           *)
(***************************************************************************)
EXTENDS Integers, Sequences, FiniteSets, TLC
CONSTANTS Procs, Behaviour,   \* Behaviour \in [Procs -> {"finish", "frame", "req", "hang", "early", "never"}]
          Init0,              \* Init0 \in [Procs -> Nat] ticks of initialisation
          ReqAt,              \* ReqAt \in [Procs -> Nat] tick of the request / frame after release
          T, Cap, FirstWins
VARIABLES pc, now, chan, requested, frames, returned, lost, reqlog
vars == <<pc, now, chan, requested, frames, returned, lost, reqlog>>
Init == /\ pc = [p \in Procs |-> "init"] /\ now = 0 /\ chan = <<>> /\ requested = FALSE
        /\ frames = {} /\ returned = <<>> /\ lost = 0 /\ reqlog = <<>>
AllArrived == \A p \in Procs : pc[p] # "init"
Send(st) ==       \* shut_down_with_status
  IF FirstWins /\ requested THEN UNCHANGED <<chan, lost, requested>>
  ELSE /\ requested' = TRUE
       /\ IF Len(chan) < Cap THEN chan' = Append(chan, st) /\ UNCHANGED lost
          ELSE chan' = Append(Tail(chan), st) /\ lost' = lost + 1        \* the receiver lags: the oldest value is dropped
\* Behaviour "early": the protocol asks for a shutdown during its initialisation, before it waits at the barrier;
\* "never": its initialisation never finishes (the barrier is never released, the run still ends as requested / in time)
Arrive(p) == /\ pc[p] = "init" /\ now >= Init0[p] /\ returned = <<>> /\ Behaviour[p] # "never"
             /\ pc' = [pc EXCEPT ![p] = "arrived"]
             /\ IF Behaviour[p] = "early"
                THEN Send(p) /\ reqlog' = Append(reqlog, <<p, now>>)
                ELSE UNCHANGED <<chan, lost, requested, reqlog>>
             /\ UNCHANGED <<now, frames, returned>>
Release(p) == /\ pc[p] = "arrived" /\ AllArrived /\ returned = <<>>
              /\ pc' = [pc EXCEPT ![p] = "released"]
              /\ UNCHANGED <<now, chan, requested, frames, returned, lost, reqlog>>
Post(p) ==
  /\ pc[p] = "released" /\ now >= ReqAt[p] /\ returned = <<>> /\ Behaviour[p] # "hang"
  /\ pc' = [pc EXCEPT ![p] = "done"]
  /\ CASE Behaviour[p] = "frame" -> frames' = frames \cup {<<p, now, AllArrived>>} /\ UNCHANGED <<chan, lost, requested, reqlog>>
       [] Behaviour[p] = "req" -> Send(p) /\ reqlog' = Append(reqlog, <<p, now>>) /\ UNCHANGED frames
       [] OTHER -> UNCHANGED <<chan, lost, requested, frames, reqlog>>
  /\ UNCHANGED <<now, returned>>
TimeoutFire == /\ now = T /\ returned = <<>> /\ ~\E i \in 1..Len(reqlog) : reqlog[i][1] = "timeout"
               /\ Send("TimedOut") /\ reqlog' = Append(reqlog, <<"timeout", now>>)
               /\ UNCHANGED <<pc, now, frames, returned>>
\* run_internet reads the oldest retained status
Return == /\ returned = <<>> /\ chan # <<>>
          /\ returned' = <<Head(chan), now>>
          /\ UNCHANGED <<pc, now, chan, requested, frames, lost, reqlog>>
OuterTimeout == /\ returned = <<>> /\ now = T + 1
                /\ returned' = <<"TimedOut", now>>
                /\ UNCHANGED <<pc, now, chan, requested, frames, lost, reqlog>>
\* time passes only when the run has had its chance to read the channel (the main task is woken by a send)
Tick == /\ now < T + 1 /\ returned = <<>> /\ chan = <<>>
        /\ (now = T => \E i \in 1..Len(reqlog) : reqlog[i][1] = "timeout")
        /\ now' = now + 1
        /\ UNCHANGED <<pc, chan, requested, frames, returned, lost, reqlog>>
Next == (\E p \in Procs : Arrive(p) \/ Release(p) \/ Post(p)) \/ TimeoutFire \/ Return \/ OuterTimeout \/ Tick
Spec == Init /\ [][Next]_vars
\* C13 ---------------------------------------------------------------------
Barrier == \A f \in frames : f[3]                         \* every frame was sent after all protocols had arrived
First == IF reqlog = <<>> THEN "none" ELSE IF reqlog[1][1] = "timeout" THEN "TimedOut" ELSE reqlog[1][1]
Status == returned # <<>> => returned[1] = (IF First = "none" THEN "TimedOut" ELSE First)
Bound == returned # <<>> => returned[2] <= T + 1
NoHangForever == (~ENABLED Next) => returned # <<>>
=============================================================================
