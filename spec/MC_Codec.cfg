SPECIFICATION Spec
INVARIANTS RoundTrip CksumLaw
CHECK_DEADLOCK FALSE
