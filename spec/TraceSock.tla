------------------------------ MODULE TraceSock ------------------------------
(***************************************************************************)
(* C02 on the complete stack.  Property-level state per connection: bytes   *)
(* written by the client application (positions of one stream), bytes the   *)
(* server application has read.                                             *)
(*   RecvBound : recv(n) never returns more than n bytes                    *)
(*   StreamInv : every read returns exactly the next positions of the       *)
(*               stream (nothing lost, duplicated or reordered)             *)
(*   Complete  : with bounded loss everything written is eventually read    *)
(*   Datagram  : intact or not at all, from the connected peer only         *)
(*   Greeting  : the same in the other direction -- in some runs the server *)
(*               speaks first (writes on the accepted connection before it  *)
(*               reads) and the client reads that before it writes          *)
(*   Accept    : messages delivered while accept() hands the backlog to the *)
(*               socket (deliveries made from another thread, recorded by   *)
(*               `sockrace-drive`) are read after the backlog, in order,    *)
(*               none lost (SockPipe.tla AcceptTake / AcceptDrain)          *)
(***************************************************************************)
EXTENDS Integers, Sequences, FiniteSets, TLC, Json, IOUtils
Rec == ndJsonDeserialize(IOEnv.TRACE)
VARIABLES l, s
Init0 == [run |-> -1, backlog |-> FALSE, stream |-> TRUE, totals |-> <<>>, nwrites |-> <<>>, got |-> [c \in 0..7 |-> 0], finished |-> {}, maxq |-> 0,
          greet |-> 0, cgot |-> [c \in 0..7 |-> 0], ngreet |-> 0, nconn |-> 0, nconc |-> 0,
          bad |-> {}, nbad |-> 0, runs |-> 0, events |-> 0]
Viol(t, e, clause) ==
  IF Cardinality({x \in t.bad : x.clause = clause}) >= 3 THEN [t EXCEPT !.nbad = @ + 1]
  ELSE [t EXCEPT !.bad = @ \cup {[run |-> t.run, i |-> e.i, clause |-> clause]}, !.nbad = @ + 1]
Step(t, e) ==
  LET t0 == [t EXCEPT !.events = @ + 1] IN
  CASE e.ev = "reset" -> [t0 EXCEPT !.run = e.run, !.runs = @ + 1, !.stream = e.stream, !.backlog = e.backlog, !.totals = e.totals, !.nwrites = e.nwrites,
                                   !.got = [c \in 0..7 |-> 0], !.finished = {}, !.greet = e.greet, !.cgot = [c \in 0..7 |-> 0]]
    [] e.ev = "cread" ->
         LET t1 == IF e.len <= e.n THEN t0 ELSE Viol(t0, e, "recv(n) returned more than n bytes")
             t2 == IF e.ok # e.len \/ e.off # t.cgot[e.c] THEN Viol(t1, e, "bytes read by the client are not the next bytes the server wrote on the accepted connection")
                   ELSE IF e.off + e.len > t.greet THEN Viol(t1, e, "more bytes read than written") ELSE t1
         IN [t2 EXCEPT !.cgot[e.c] = @ + e.len, !.ngreet = @ + e.len]
    [] e.ev = "read" ->
         LET t1 == IF e.n < 0 \/ e.len <= e.n THEN t0 ELSE Viol(t0, e, "recv(n) returned more than n bytes")    \* (n = -1: a whole-message read)
             t2 == IF e.c < 0 THEN Viol(t1, e, "the first bytes read are not the beginning of any client's stream")
                   ELSE IF e.ok # e.len \/ e.off # t.got[e.c]
                   THEN Viol(t1, e, IF t.backlog THEN "[K1] bytes were lost: more than 255 messages were queued on a socket whose reader had not started (try_send on the bounded queue fails)"
                                    ELSE "bytes read are not the next bytes of the peer's writes (lost, duplicated or reordered)")
                   ELSE IF e.off + e.len > t.totals[e.c + 1] THEN Viol(t1, e, "more bytes read than written") ELSE t1
         IN IF e.c >= 0 THEN [t2 EXCEPT !.got[e.c] = @ + e.len] ELSE t2
    [] e.ev = "rconn" ->
         LET t1 == IF e.in_order THEN t0
                   ELSE Viol(t0, e, "messages delivered while accept() was handing the backlog to the socket overtook the backlog (read out of order)")
             t2 == IF e.got + e.refused = e.sent THEN t1 ELSE Viol(t1, e, "a message accepted by the socket layer was never read")
         IN [t2 EXCEPT !.nconn = @ + 1, !.nconc = @ + (IF e.at_accept < e.sent THEN 1 ELSE 0)]
    [] e.ev = "reader_done" -> IF e.c >= 0 THEN [t0 EXCEPT !.finished = @ \cup {e.c}] ELSE t0
    [] e.ev = "dgram" ->
         IF ~e.intact \/ e.len < 2 THEN Viol(t0, e, "a datagram was delivered altered")
         ELSE IF e.from # e.c THEN Viol(t0, e, "a datagram from another peer was delivered on a connected datagram socket")
         ELSE IF e.k >= t.nwrites[e.c + 1] THEN Viol(t0, e, "a datagram that was never sent was delivered") ELSE t0
    [] e.ev = "end" ->
         IF ~t.stream THEN t0
         ELSE IF \E c \in 0..(Len(t.totals) - 1) : t.cgot[c] # t.greet
         THEN Viol(t0, e, "the server wrote first on the accepted connection and the client never received all of it although loss was bounded")
         ELSE IF \A c \in 0..(Len(t.totals) - 1) : t.got[c] = t.totals[c + 1] THEN t0
         ELSE Viol(t0, e, IF t.backlog THEN "[K1] not everything written was delivered: messages beyond the 255-slot socket queue were dropped"
                          ELSE "not everything written was delivered to the reader although loss was bounded")
    [] e.ev = "panic" -> Viol(t0, e, "panic: " \o e.msg \o " at " \o e.loc)
    [] e.ev = "hang" -> Viol(t0, e, "the scenario never ended: the code under test kept producing events without bound or stopped making progress (" \o e.why \o ")")
    [] OTHER -> t0
Init == l = 1 /\ s = Init0
Next == l <= Len(Rec) /\ s' = Step(s, Rec[l]) /\ l' = l + 1
Spec == Init /\ [][Next]_<<l, s>>
Report == TLCSet(1, [bad |-> s.bad, nbad |-> s.nbad, runs |-> s.runs, events |-> s.events, greeting_bytes |-> s.ngreet,
                     accepts_judged |-> s.nconn, accepts_with_concurrent_deliveries |-> s.nconc])
Final == /\ PrintT(<<"TRACE-RESULT", ToJson(TLCGet(1))>>)
         /\ PrintT(<<"TRACE-SUMMARY", ToJson([events |-> Len(Rec), consumed |-> TLCGet("stats").diameter - 1])>>)
=============================================================================
