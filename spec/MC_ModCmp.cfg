SPECIFICATION Spec
CONSTANT M = 32
INVARIANTS Agree StrictConsistent BoundedOk
CHECK_DEADLOCK FALSE
