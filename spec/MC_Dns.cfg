SPECIFICATION Spec
CONSTANTS
  Clients = {"c1", "c2"}
  Names = {"x", "y"}
  Addr <- AddrA
  MaxLookups = 4
INVARIANTS Right Echo CacheRight CachedSilent NoLoss
CHECK_DEADLOCK FALSE
