--------------------------------- MODULE Arp ---------------------------------
(***************************************************************************)
(* C06.  arp.rs on one broadcast network: claimed local addresses, the ARP *)
(* table (learned from the SENDER fields of every ARP packet), resolve()   *)
(* with gateway substitution, cache lookup, and the retry loop (request,   *)
(* wait one RESEND_DELAY for the table to change, Tries times, then cache  *)
(* the failure).  The network may drop ARP frames (budget).  Time is       *)
(* abstract: a retry timer fires only when the exchange of the current try *)
(* is over (request / reply delivered or dropped), which is the situation  *)
(* of a latency far below 200 ms.                                          *)
(***************************************************************************)
EXTENDS Integers, FiniteSets, TLC
CONSTANTS Machines, Ips, Owner,     \* Owner \in [Ips -> Machines \cup {"nobody"}]
          Subnet,                   \* Subnet \in [Machines -> [set : BOOLEAN, inside : SUBSET Ips, gw : Ips]]
          Tries, Drops, Calls       \* Calls \subseteq Machines \X Ips : resolve calls that may be issued (each once)
Mac(m) == m                        \* a machine's hardware address is its name
Failed == "failed"
LocalIp(m) == CHOOSE ip \in Ips : Owner[ip] = m      \* the local address a machine resolves from
VARIABLES table, res, wire, drops, issued
vars == <<table, res, wire, drops, issued>>
\* res: set of resolver records [m, target, try, phase \in {"send","wait"}, through (this try's exchange complete), result]
Init == /\ table = [m \in Machines |-> [ip \in {} |-> 0]]
        /\ res = {} /\ wire = {} /\ drops = Drops /\ issued = {}
Lookup(m, ip) == IF ip \in DOMAIN table[m] THEN table[m][ip] ELSE "none"
Learn(t, ip, mac) == [x \in DOMAIN t \cup {ip} |-> IF x = ip THEN mac ELSE t[x]]
Target(m, ip) == IF Subnet[m].set /\ ip \notin Subnet[m].inside THEN Subnet[m].gw ELSE ip

ResolveStart(c) ==
  /\ c \in Calls \ issued /\ issued' = issued \cup {c}
  /\ LET m == c[1]  tg == Target(c[1], c[2])  cached == Lookup(c[1], Target(c[1], c[2])) IN
     res' = res \cup {[id |-> c, m |-> m, target |-> tg, try |-> 1,
                       phase |-> IF cached = "none" THEN "send" ELSE "done",
                       result |-> cached, anyThrough |-> FALSE]}
  /\ UNCHANGED <<table, wire, drops>>
SendRequest(r) ==
  /\ r \in res /\ r.phase = "send"
  /\ wire' = wire \cup {[op |-> "req", from |-> r.m, tip |-> r.target, to |-> "all", try |-> r.try, rid |-> r.id]}
  /\ res' = (res \ {r}) \cup {[r EXCEPT !.phase = "wait"]}
  /\ UNCHANGED <<table, drops, issued>>
Drop(f) == /\ f \in wire /\ drops > 0 /\ drops' = drops - 1 /\ wire' = wire \ {f}
           /\ UNCHANGED <<table, res, issued>>
\* a broadcast request reaches every machine in one step (fan-out of the link)
RecvRequest(f) ==
  /\ f \in wire /\ f.op = "req"
  /\ table' = [m \in Machines |-> Learn(table[m], LocalIp(f.from), Mac(f.from))]
  /\ wire' = (wire \ {f}) \cup (IF Owner[f.tip] \in Machines
                                THEN {[op |-> "rep", from |-> Owner[f.tip], tip |-> f.tip, to |-> f.from, try |-> f.try, rid |-> f.rid]}
                                ELSE {})
  /\ UNCHANGED <<res, drops, issued>>
Wake(rs, m, ip, mac) == {IF r.m = m /\ r.target = ip /\ r.phase = "wait"
                         THEN [r EXCEPT !.phase = "done", !.result = mac, !.anyThrough = TRUE] ELSE r : r \in rs}
RecvReply(f) ==
  /\ f \in wire /\ f.op = "rep"
  /\ table' = [table EXCEPT ![f.to] = Learn(@, f.tip, Mac(f.from))]
  /\ res' = Wake(res, f.to, f.tip, Mac(f.from))
  /\ wire' = wire \ {f}
  /\ UNCHANGED <<drops, issued>>
\* 200 ms pass without a table change: the exchange of this try is over (nothing of it in flight)
RetryTimer(r) ==
  /\ r \in res /\ r.phase = "wait"
  /\ ~\E f \in wire : f.rid = r.id /\ f.try = r.try
  /\ IF r.try < Tries
     THEN res' = (res \ {r}) \cup {[r EXCEPT !.try = @ + 1, !.phase = "send"]} /\ UNCHANGED table
     ELSE /\ table' = [table EXCEPT ![r.m] = Learn(@, r.target, Failed)]
          /\ res' = {IF x.m = r.m /\ x.target = r.target /\ x.phase = "wait" THEN [x EXCEPT !.phase = "done", !.result = Failed] ELSE x : x \in res}
  /\ UNCHANGED <<wire, drops, issued>>
Next == \/ \E c \in Calls : ResolveStart(c)
        \/ \E r \in res : SendRequest(r) \/ RetryTimer(r)
        \/ \E f \in wire : Drop(f) \/ RecvRequest(f) \/ RecvReply(f)
Spec == Init /\ [][Next]_vars

\* C06 ---------------------------------------------------------------------
Done == {r \in res : r.phase = "done"}
Correct == \A r \in Done : r.result # Failed => (Owner[r.target] \in Machines /\ r.result = Mac(Owner[r.target]))
TableCorrect == \A m \in Machines : \A ip \in DOMAIN table[m] \cap Ips : table[m][ip] # Failed => table[m][ip] = Mac(Owner[ip])
Unclaimed == \A r \in Done : Owner[r.target] = "nobody" => r.result = Failed
\* with fewer drops than tries some exchange gets through: then the resolution succeeds
Succeeds == \A r \in Done : (Owner[r.target] \in Machines /\ 2 * Tries > Drops + 1 /\ Drops < Tries) => r.result # Failed
Bounded == \A r \in res : r.try <= Tries
Agree == \A r1, r2 \in Done : (r1.m = r2.m /\ r1.target = r2.target /\ r1.result # r2.result) =>
            \* different answers only if one of them was answered from a cache written before the other began
            (r1.try = 1 \/ r2.try = 1)
\* never hangs: when nothing can happen every issued resolution has returned
NoHang == (~ENABLED Next) => \A r \in res : r.phase = "done"
=============================================================================
