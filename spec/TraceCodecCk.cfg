SPECIFICATION TSpec
CONSTANT Checked = TRUE
CONSTRAINT Report
POSTCONDITION Final
CHECK_DEADLOCK FALSE
