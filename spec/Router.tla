------------------------------- MODULE Router -------------------------------
(***************************************************************************)
(* C16.  Hosts on subnets, static routers (arp_router.rs) joining them.    *)
(* A packet <<id, dst subnet, dst host, ttl>> is a frame on a subnet       *)
(* addressed to a host or to a router.  HostSend: same subnet -> the host  *)
(* itself, otherwise the default gateway.  Forward(r): ttl-1, drop at 0,   *)
(* longest-prefix route (here: per destination subnet), no route -> drop,  *)
(* next hop unreachable -> drop, else exactly one frame on the outgoing    *)
(* subnet.  ARP details are C06's: resolution succeeds iff the next hop    *)
(* exists on that subnet.                                                  *)
(***************************************************************************)
EXTENDS Integers, Sequences, FiniteSets, TLC
CONSTANTS Subnets, Routers, Attach,      \* Attach \in [Routers -> SUBSET Subnets]
          Route,                          \* Route \in [Routers -> [Subnets -> [kind : {"direct","via","none"}, nh : Routers, out : Subnets]]]
          Gateway,                        \* Gateway \in [Subnets -> Routers]
          HostOn,                         \* HostOn \in [Subnets -> BOOLEAN]  (one host per subnet, named by its subnet)
          Ttl0, Sends                     \* Sends \subseteq Subnets \X Subnets (source host, destination host)
VARIABLES wire, seen, delivered, sent
vars == <<wire, seen, delivered, sent>>
\* a frame: [id, dst, ttl, net, to]  to = <<"host", s>> or <<"router", r>>
Init == wire = {} /\ seen = <<>> /\ delivered = {} /\ sent = {}
HostSend(sd) ==
  /\ sd \in Sends \ sent /\ sent' = sent \cup {sd}
  /\ LET src == sd[1]  dst == sd[2] IN
     IF dst = src THEN UNCHANGED <<wire, seen>>          \* (not modelled: sending to oneself)
     ELSE LET f == [id |-> sd, dst |-> dst, ttl |-> Ttl0, net |-> src, to |-> <<"router", Gateway[src]>>] IN
          wire' = wire \cup {f} /\ seen' = Append(seen, <<sd, src, Ttl0>>)
  /\ UNCHANGED delivered
Forward(f) ==
  /\ f \in wire /\ f.to[1] = "router"
  /\ LET r == f.to[2]  t1 == f.ttl - 1  rt == Route[r][f.dst] IN
     IF t1 = 0 \/ rt.kind = "none" THEN wire' = wire \ {f} /\ UNCHANGED seen
     ELSE IF rt.kind = "direct"
          THEN IF rt.out = f.dst /\ HostOn[f.dst] /\ f.dst \in Attach[r]
               THEN LET g == [f EXCEPT !.ttl = t1, !.net = rt.out, !.to = <<"host", f.dst>>] IN
                    wire' = (wire \ {f}) \cup {g} /\ seen' = Append(seen, <<f.id, rt.out, t1>>)
               ELSE wire' = wire \ {f} /\ UNCHANGED seen
          ELSE IF rt.out \in Attach[r] /\ rt.out \in Attach[rt.nh]
               THEN LET g == [f EXCEPT !.ttl = t1, !.net = rt.out, !.to = <<"router", rt.nh>>] IN
                    wire' = (wire \ {f}) \cup {g} /\ seen' = Append(seen, <<f.id, rt.out, t1>>)
               ELSE wire' = wire \ {f} /\ UNCHANGED seen
  /\ UNCHANGED <<delivered, sent>>
HostReceive(f) ==
  /\ f \in wire /\ f.to[1] = "host"
  /\ wire' = wire \ {f} /\ delivered' = delivered \cup {<<f.id, f.to[2]>>}
  /\ UNCHANGED <<seen, sent>>
Next == (\E sd \in Sends : HostSend(sd)) \/ (\E f \in wire : Forward(f) \/ HostReceive(f))
Spec == Init /\ [][Next]_vars
\* C16 ---------------------------------------------------------------------
FramesOf(id) == {k \in 1..Len(seen) : seen[k][1] = id}
TtlBound == \A sd \in Sends : Cardinality(FramesOf(sd)) <= Ttl0
HopDecrement == \A sd \in Sends : \A k1, k2 \in FramesOf(sd) : k1 < k2 =>
                  (seen[k2][3] < seen[k1][3] /\ (\A k3 \in FramesOf(sd) : ~(k1 < k3 /\ k3 < k2)) => seen[k2][3] = seen[k1][3] - 1)
NoMultiply == \A sd \in Sends : Cardinality({f \in wire : f.id = sd}) <= 1
OnlyDst == \A d \in delivered : d[2] = d[1][2]
Silence == (~ENABLED Next) => wire = {}
=============================================================================
