--------------------------------- MODULE Dhcp ---------------------------------
(***************************************************************************)
(* C15 (leases).  dhcp_server.rs / dhcp_client.rs: every client sends one  *)
(* Discover; the server answers a Discover with an Offer of a fresh address*)
(* from its generator (IpGen: fetch_ip), a Request with an Ack of the same *)
(* address, and returns a Released address to the generator; a client      *)
(* answers an Offer with a Request and takes the address of every Ack it   *)
(* receives.  Replies are addressed to the hardware address the request    *)
(* came from.  The network reorders freely and duplicates (budget).        *)
(***************************************************************************)
EXTENDS Integers, FiniteSets, TLC
CONSTANTS Clients, Pool, Dups
VARIABLES free, msgs, lease, started, dups, offered, released
vars == <<free, msgs, lease, started, dups, offered, released>>
Init == free = Pool /\ msgs = {} /\ lease = [c \in Clients |-> 0] /\ started = {} /\ dups = Dups
        /\ offered = [c \in Clients |-> {}] /\ released = {}
Discover(c) == /\ c \notin started /\ started' = started \cup {c}
               /\ msgs' = msgs \cup {[type |-> "Discover", c |-> c, ip |-> 0]}
               /\ UNCHANGED <<free, lease, dups, offered, released>>
\* the network delivers m (or a duplicate of it, which stays in flight)
Take(m, keep) == /\ m \in msgs /\ (keep => dups > 0)
                 /\ dups' = IF keep THEN dups - 1 ELSE dups
ServerDiscover(m, keep) ==
  /\ m.type = "Discover" /\ Take(m, keep) /\ free # {}
  /\ LET ip == CHOOSE x \in free : \A y \in free : x <= y IN          \* fetch_ip: lowest free address
     /\ free' = free \ {ip}
     /\ msgs' = (IF keep THEN msgs ELSE msgs \ {m}) \cup {[type |-> "Offer", c |-> m.c, ip |-> ip]}
     /\ offered' = [offered EXCEPT ![m.c] = @ \cup {ip}]
  /\ UNCHANGED <<lease, started, released>>
ClientOffer(m, keep) ==
  /\ m.type = "Offer" /\ Take(m, keep)
  /\ msgs' = (IF keep THEN msgs ELSE msgs \ {m}) \cup {[type |-> "Request", c |-> m.c, ip |-> m.ip]}
  /\ UNCHANGED <<free, lease, started, offered, released>>
ServerRequest(m, keep) ==
  /\ m.type = "Request" /\ Take(m, keep)
  /\ msgs' = (IF keep THEN msgs ELSE msgs \ {m}) \cup {[type |-> "Ack", c |-> m.c, ip |-> m.ip]}
  /\ UNCHANGED <<free, lease, started, offered, released>>
ClientAck(m, keep) ==
  /\ m.type = "Ack" /\ Take(m, keep)
  /\ msgs' = IF keep THEN msgs ELSE msgs \ {m}
  /\ lease' = [lease EXCEPT ![m.c] = m.ip]
  /\ UNCHANGED <<free, started, offered, released>>
\* a client gives its lease back (when nothing of its exchange is in flight any more)
Release(c) ==
  /\ lease[c] # 0 /\ (~\E m \in msgs : m.c = c) /\ dups' = dups
  /\ free' = free \cup {lease[c]} /\ released' = released \cup {lease[c]}
  /\ lease' = [lease EXCEPT ![c] = 0]
  /\ UNCHANGED <<msgs, started, offered>>
Next == \/ \E c \in Clients : Discover(c) \/ Release(c)
        \/ \E m \in msgs, keep \in BOOLEAN : ServerDiscover(m, keep) \/ ClientOffer(m, keep) \/ ServerRequest(m, keep) \/ ClientAck(m, keep)
Spec == Init /\ [][Next]_vars
\* C15 ---------------------------------------------------------------------
Distinct == \A c1, c2 \in Clients : (c1 # c2 /\ lease[c1] # 0) => lease[c1] # lease[c2]
InPool == \A c \in Clients : lease[c] # 0 => lease[c] \in Pool
Learned == \A c \in Clients : lease[c] # 0 => lease[c] \in offered[c]
HeldNotFree == \A c \in Clients : lease[c] # 0 => lease[c] \notin free
Reuse == released \subseteq free \cup UNION {offered[c] : c \in Clients}
Everyone == (~ENABLED Next) => \A c \in Clients : c \in started
=============================================================================
