----------------------------- MODULE TraceModCmp -----------------------------
(***************************************************************************)
(* C12(i) on the real ring 2^32: results of the real mod_lt / mod_leq /     *)
(* mod_gt / mod_geq / mod_bounded recorded by the harness for sampled       *)
(* (a, d), d < 2^31, are compared with the mathematical circular order.     *)
(* 32-bit numbers are logged as <<hi16, lo16>> (TLC integers are 32-bit     *)
(* signed); the circular order of a and a (+) d depends on d only.          *)
(***************************************************************************)
EXTENDS Integers, Sequences, FiniteSets, TLC, Json, IOUtils
Rec == ndJsonDeserialize(IOEnv.TRACE)
VARIABLES l, bad
IsZero(d) == d[1] = 0 /\ d[2] = 0
Pos(d) == ~IsZero(d)               \* 0 < d (d < 2^31 by construction: hi < 32768)
InDomain(d) == d[1] < 32768

CmpOk(e) ==
  LET d == e.d IN
  /\ InDomain(d)
  /\ e.lt = Pos(d) /\ e.leq = TRUE /\ e.gt = Pos(d) /\ e.geq = TRUE
  /\ e.rlt = FALSE /\ e.rleq = IsZero(d) /\ e.rgt = FALSE /\ e.rgeq = IsZero(d)
  \* strict vs non-strict
  /\ e.leq = (e.lt \/ IsZero(d)) /\ e.geq = (e.gt \/ IsZero(d))
BndOk(e) ==
  e.res = ((IF e.ab = "Lt" THEN Pos(e.d1) ELSE TRUE) /\ (IF e.bc = "Lt" THEN Pos(e.d2) ELSE TRUE))

Ok(e) == IF e.ev = "cmp" THEN CmpOk(e) ELSE BndOk(e)
Init == l = 1 /\ bad = {}
Next == l <= Len(Rec) /\ l' = l + 1
        /\ bad' = IF Ok(Rec[l]) \/ Cardinality(bad) >= 8 THEN bad ELSE bad \cup {Rec[l]}
Spec == Init /\ [][Next]_<<l, bad>>
Report == TLCSet(1, [bad |-> bad, nbad |-> Cardinality(bad), runs |-> 1, events |-> l - 1])
Final == /\ PrintT(<<"TRACE-RESULT", ToJson(TLCGet(1))>>)
         /\ PrintT(<<"TRACE-SUMMARY", ToJson([events |-> Len(Rec), consumed |-> TLCGet("stats").diameter - 1])>>)
=============================================================================
