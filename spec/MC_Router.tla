------------------------------ MODULE MC_Router ------------------------------
EXTENDS Router
\* line: subnets 0,1,2; routers a (0,1) and b (1,2)
AttLine == [r \in {"a", "b"} |-> IF r = "a" THEN {0, 1} ELSE {1, 2}]
None == [kind |-> "none", nh |-> "a", out |-> 0]
Dir(o) == [kind |-> "direct", nh |-> "a", out |-> o]
Via(n, o) == [kind |-> "via", nh |-> n, out |-> o]
RouteOk == [r \in {"a", "b"} |-> IF r = "a" THEN [s \in {0, 1, 2} |-> IF s = 2 THEN Via("b", 1) ELSE Dir(s)]
                                           ELSE [s \in {0, 1, 2} |-> IF s = 0 THEN Via("a", 1) ELSE Dir(s)]]
RouteLoop == [r \in {"a", "b"} |-> IF r = "a" THEN [s \in {0, 1, 2} |-> IF s = 2 THEN Via("b", 1) ELSE Dir(s)]
                                             ELSE [s \in {0, 1, 2} |-> IF s = 2 THEN Via("a", 1) ELSE IF s = 0 THEN Via("a", 1) ELSE Dir(s)]]
RouteMissing == [r \in {"a", "b"} |-> IF r = "a" THEN [s \in {0, 1, 2} |-> IF s = 2 THEN None ELSE Dir(s)]
                                                ELSE [s \in {0, 1, 2} |-> IF s = 0 THEN Via("a", 1) ELSE Dir(s)]]
GwLine == [s \in {0, 1, 2} |-> IF s = 2 THEN "b" ELSE "a"]
AllHosts == [s \in {0, 1, 2} |-> TRUE]
NoHost2 == [s \in {0, 1, 2} |-> s # 2]
SendsA == {<<0, 2>>, <<2, 0>>, <<1, 2>>}
=============================================================================
