---------------------------- MODULE TraceIpTable ----------------------------
(***************************************************************************)
(* C09 on the real IpTable / Ipv4Net with 32-bit addresses logged as byte  *)
(* tuples: the property's definitions (network = id..broadcast, lookup =   *)
(* longest matching prefix, overlap = ranges intersect, range -> network   *)
(* iff aligned power-of-two block, CIDR text) are evaluated on bytes and   *)
(* compared with every recorded result.                                    *)
(***************************************************************************)
EXTENDS Integers, Sequences, FiniteSets, TLC, Json, IOUtils
Rec == ndJsonDeserialize(IOEnv.TRACE)
VARIABLES l, s
Bits(m, k) == LET r == m - 8 * (k - 1) IN IF r < 0 THEN 0 ELSE IF r > 8 THEN 8 ELSE r
Blk(m, k) == 2 ^ (8 - Bits(m, k))
IdB(a, m) == [k \in 1..4 |-> (a[k] \div Blk(m, k)) * Blk(m, k)]
BcB(a, m) == [k \in 1..4 |-> (a[k] \div Blk(m, k)) * Blk(m, k) + Blk(m, k) - 1]
MaskB(m) == [k \in 1..4 |-> 256 - Blk(m, k)]
Lt(x, y) == \E k \in 1..4 : x[k] < y[k] /\ \A j \in 1..(k - 1) : x[j] = y[j]
Leq(x, y) == x = y \/ Lt(x, y)
In(a, id, m) == Leq(id, a) /\ Leq(a, BcB(id, m))           \* membership by the property's definition
T(x) == <<x[1], x[2], x[3], x[4]>>
Init0 == [run |-> -1, tab |-> {}, bad |-> {}, nbad |-> 0, runs |-> 0, events |-> 0]
Viol(t, e, clause) ==
  IF Cardinality({x \in t.bad : x.clause = clause}) >= 3 THEN [t EXCEPT !.nbad = @ + 1]
  ELSE [t EXCEPT !.bad = @ \cup {[run |-> t.run, i |-> e.i, clause |-> clause]}, !.nbad = @ + 1]
Lookup(tab, a) == LET hits == {x \in tab : In(a, x.id, x.m)} IN
                  IF hits = {} THEN -1 ELSE (CHOOSE x \in hits : \A y \in hits : y.m <= x.m).v
Tab(t, e) ==
  LET a == T(e.ip) IN
  CASE e.op \in {"add", "add_direct", "add_cidr"} ->
         [t EXCEPT !.tab = {x \in @ : ~(x.id = IdB(a, e.m) /\ x.m = e.m)} \cup {[id |-> IdB(a, e.m), m |-> e.m, v |-> e.v]}]
    [] e.op = "remove" ->
         LET old == {x \in t.tab : x.id = IdB(a, e.m) /\ x.m = e.m}
             t1 == IF (old = {} /\ e.v = -1) \/ (old # {} /\ \E x \in old : x.v = e.v) THEN t
                   ELSE Viol(t, e, "remove returned a value other than the one stored for that network")
         IN [t1 EXCEPT !.tab = @ \ old]
    [] e.op = "lookup" ->
         IF e.v = Lookup(t.tab, a) THEN t
         ELSE Viol(t, e, "lookup is not the value of the longest matching prefix")
    [] e.op = "iter" ->
         LET got == {[id |-> T(e.list[k][1]), m |-> e.list[k][2], v |-> e.list[k][3]] : k \in 1..Len(e.list)}
             sorted == \A k \in 1..(Len(e.list) - 1) :
                          e.list[k][2] > e.list[k + 1][2] \/ (e.list[k][2] = e.list[k + 1][2] /\ Lt(T(e.list[k][1]), T(e.list[k + 1][1])))
         IN IF got = t.tab /\ Len(e.list) = Cardinality(t.tab) /\ sorted THEN t
            ELSE Viol(t, e, "iteration does not list the table (each network once, most specific first)")
NetEv(t, e) ==
  LET a == T(e.ip)  m == e.m  id == IdB(a, m)  bc == BcB(a, m)
      c1 == T(e.id) = id /\ T(e.bcast) = bc /\ e.ones = m /\ T(e.maskb) = MaskB(m)
      c2 == \A k \in 1..Len(e.contains) : e.contains[k][2] = In(T(e.contains[k][1]), id, m)
      c3 == \A k \in 1..Len(e.ovl) :
              LET id2 == IdB(T(e.ovl[k][1]), e.ovl[k][2])  bc2 == BcB(T(e.ovl[k][1]), e.ovl[k][2])
                  inter == Leq(id, bc2) /\ Leq(id2, bc) IN
              e.ovl[k][3] = inter /\ e.ovl[k][4] = inter
      c4 == \A k \in 1..Len(e.r2n) :
              LET lo == T(e.r2n[k][1])  hi == T(e.r2n[k][2])
                  ms == {q \in 0..32 : IdB(lo, q) = lo /\ BcB(lo, q) = hi} IN
              IF ms = {} \/ Lt(hi, lo) THEN e.r2n[k][3] = -1
              ELSE e.r2n[k][3] \in ms /\ T(e.r2n[k][4]) = lo
      c5 == e.cidr.ok /\ T(e.cidr.ip) = a /\ e.cidr.m = m
      t1 == IF c1 THEN t ELSE Viol(t, e, "network id / broadcast / mask differ from the definition")
      t2 == IF c2 THEN t1 ELSE Viol(t1, e, "contains() differs from id <= address <= broadcast")
      t3 == IF c3 THEN t2 ELSE Viol(t2, e, "overlaps() differs from range intersection (or is not symmetric)")
      t4 == IF c4 THEN t3 ELSE Viol(t3, e, "range -> network conversion is not 'exactly the aligned power-of-two blocks'")
  IN IF c5 THEN t4 ELSE Viol(t4, e, "CIDR text does not parse to the network it denotes")
Step(t, e) ==
  LET t0 == [t EXCEPT !.events = @ + 1] IN
  IF e.ev = "reset" THEN [t0 EXCEPT !.run = e.run, !.tab = {}, !.runs = @ + 1]
  ELSE IF e.ev = "tab" THEN Tab(t0, e) ELSE NetEv(t0, e)
Init == l = 1 /\ s = Init0
Next == l <= Len(Rec) /\ s' = Step(s, Rec[l]) /\ l' = l + 1
Spec == Init /\ [][Next]_<<l, s>>
Report == TLCSet(1, [bad |-> s.bad, nbad |-> s.nbad, runs |-> s.runs, events |-> s.events])
Final == /\ PrintT(<<"TRACE-RESULT", ToJson(TLCGet(1))>>)
         /\ PrintT(<<"TRACE-SUMMARY", ToJson([events |-> Len(Rec), consumed |-> TLCGet("stats").diameter - 1])>>)
=============================================================================
