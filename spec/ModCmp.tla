------------------------------- MODULE ModCmp -------------------------------
(***************************************************************************)
(* The circular comparison primitives of tcb/modular_cmp.rs transcribed on *)
(* a ring Z_M (the code: M = 2^32) next to the mathematical circular order.*)
(* TLC walks the whole ring (variable a) and evaluates, for every distance *)
(* d < M/2, that the code's definitions agree with the circular order and  *)
(* are mutually consistent (C12, second sentence).                         *)
(***************************************************************************)
EXTENDS Integers
CONSTANT M
ASSUME M % 4 = 0
H == M \div 2
Add(a, b) == (a + b) % M
Sub(a, b) == (a - b + M) % M

\* ---- the code (modular_cmp.rs), after the repair of mod_leq / mod_geq at distance M/2-1
Lt(a, b) == Sub(a, b) > H
Leq(a, b) == a = b \/ Lt(a, b)
Gt(a, b) == Lt(b, a)
Geq(a, b) == a = b \/ Gt(a, b)
\* the definitions as found (kept for the record: they fail StrictConsistent at d = M/2 - 1)
LeqOld(a, b) == Lt(a, Add(b, 1))
GeqOld(a, b) == Lt(Sub(b, 1), a)
Off(c) == IF c = "Leq" THEN 1 ELSE 0
Bounded(a0, ab, b, bc, c0) ==
  LET a == Sub(a0, Off(ab))
      c == Add(c0, Off(bc))
      j == a < b /\ b < c /\ a < c
      k == a < b /\ b > c /\ a > c
      l == a > b /\ b < c /\ a > c
  IN j \/ k \/ l

\* ---- the mathematical circular order on points less than M/2 apart
CLt(a, b) == 0 < Sub(b, a) /\ Sub(b, a) < H
CLeq(a, b) == Sub(b, a) < H

VARIABLE a
Init == a = 0
Next == a < M - 1 /\ a' = a + 1
Spec == Init /\ [][Next]_a

D == 0..(H - 1)
Agree == \A d \in D : LET b == Add(a, d) IN
           /\ Lt(a, b) = CLt(a, b) /\ Leq(a, b) = CLeq(a, b)
           /\ Gt(b, a) = CLt(a, b) /\ Geq(b, a) = CLeq(a, b)
           /\ (d # 0 => ~Lt(b, a) /\ ~Leq(b, a) /\ ~Gt(a, b) /\ ~Geq(a, b))
StrictConsistent == \A d \in D : LET b == Add(a, d) IN
           /\ Leq(a, b) = (Lt(a, b) \/ a = b)
           /\ Geq(b, a) = (Gt(b, a) \/ a = b)
           /\ Lt(a, b) = ~Geq(a, b) /\ Gt(b, a) = ~Leq(b, a)
\* bounded-between = conjunction of the two comparisons whenever the three points span less than M/2
BoundedOk == \A d1 \in D : \A d2 \in 0..(H - 1 - d1) :
           LET b == Add(a, d1)  c == Add(b, d2) IN
           \A ab \in {"Lt", "Leq"}, bc \in {"Lt", "Leq"} :
             (d1 + d2 + 2 < H) =>
               Bounded(a, ab, b, bc, c) = ((IF ab = "Lt" THEN CLt(a, b) ELSE CLeq(a, b))
                                           /\ (IF bc = "Lt" THEN CLt(b, c) ELSE CLeq(b, c)))
OldLeqDefect == \A d \in D : LeqOld(a, Add(a, d)) = CLeq(a, Add(a, d))   \* expected to FAIL (finding F16)
=============================================================================
