SPECIFICATION Spec
CONSTANTS
  Keys = {"a", "b"}
  DLen <- L34
  Nfbs = {1, 2}
  MaxArrivals = 6
  FixEpochs = FALSE
INVARIANTS Exact CompleteIff CovInv NoLeak
CHECK_DEADLOCK FALSE
