--------------------------------- MODULE Dns ---------------------------------
(***************************************************************************)
(* C20.  dns_client.rs / dns_server.rs over datagram sockets: a lookup     *)
(* answers from the client's cache or sends a query (fresh ephemeral port, *)
(* identifier, name) to the authoritative server; the server copies        *)
(* identifier and name into the reply with the registered address; the     *)
(* client stores answer-name -> address and returns the mapping of the     *)
(* queried name.  Frames are delayed arbitrarily (any delivery order).     *)
(***************************************************************************)
EXTENDS Integers, FiniteSets, TLC
CONSTANTS Clients, Names, Addr,     \* Addr \in [Names -> addresses]
          MaxLookups
VARIABLES cache, pending, wire, nextPort, done, frames, n
vars == <<cache, pending, wire, nextPort, done, frames, n>>
Init == /\ cache = [c \in Clients |-> {}]       \* set of <<name, address>>
        /\ pending = {} /\ wire = {} /\ nextPort = [c \in Clients |-> 1]
        /\ done = {} /\ frames = {} /\ n = 0
Cached(c, nm) == \E e \in cache[c] : e[1] = nm
Lookup(c, nm) ==
  /\ n < MaxLookups /\ n' = n + 1
  /\ IF Cached(c, nm)
     THEN /\ done' = done \cup {[c |-> c, name |-> nm, res |-> (CHOOSE e \in cache[c] : e[1] = nm)[2], cached |-> TRUE, k |-> n]}
          /\ UNCHANGED <<pending, wire, nextPort, frames, cache>>
     ELSE LET q == [c |-> c, port |-> nextPort[c], id |-> n, name |-> nm] IN
          /\ pending' = pending \cup {q}
          /\ wire' = wire \cup {[kind |-> "q", q |-> q]}
          /\ frames' = frames \cup {[c |-> c, name |-> nm, k |-> n, cachedBefore |-> FALSE]}
          /\ nextPort' = [nextPort EXCEPT ![c] = @ + 1]
          /\ UNCHANGED <<done, cache>>
ServerRespond(f) ==
  /\ f \in wire /\ f.kind = "q"
  /\ wire' = (wire \ {f}) \cup {[kind |-> "r", q |-> f.q, id |-> f.q.id, name |-> f.q.name, ans |-> Addr[f.q.name]]}
  /\ UNCHANGED <<cache, pending, nextPort, done, frames, n>>
ClientAccept(f) ==
  /\ f \in wire /\ f.kind = "r" /\ f.q \in pending
  /\ wire' = wire \ {f} /\ pending' = pending \ {f.q}
  /\ cache' = [cache EXCEPT ![f.q.c] = {e \in @ : e[1] # f.name} \cup {<<f.name, f.ans>>}]
  /\ done' = done \cup {[c |-> f.q.c, name |-> f.q.name, res |-> f.ans, cached |-> FALSE, k |-> f.q.id]}
  /\ UNCHANGED <<nextPort, frames, n>>
Next == (\E c \in Clients, nm \in Names : Lookup(c, nm)) \/ (\E f \in wire : ServerRespond(f) \/ ClientAccept(f))
Spec == Init /\ [][Next]_vars
\* C20 ---------------------------------------------------------------------
Right == \A d \in done : d.res = Addr[d.name]
Echo == \A f \in wire : f.kind = "r" => (f.id = f.q.id /\ f.name = f.q.name /\ f.ans = Addr[f.q.name])
CacheRight == \A c \in Clients : \A e \in cache[c] : e[2] = Addr[e[1]]
\* a lookup answered from the cache put no frame on the network
CachedSilent == \A d \in done : d.cached => ~\E f \in frames : f.k = d.k
NoLoss == (~ENABLED Next) => pending = {}
=============================================================================
