------------------------------ MODULE TraceArp ------------------------------
(***************************************************************************)
(* C06 on real Arp instances.  Property-level state: who claimed which IP  *)
(* (and that machine's MAC), each machine's subnet configuration, the ARP  *)
(* frames seen on the wire with the verdict of the loss plan, the resolve  *)
(* calls in progress and finished.                                         *)
(***************************************************************************)
EXTENDS Integers, Sequences, FiniteSets, TLC, Json, IOUtils
Rec == ndJsonDeserialize(IOEnv.TRACE)
VARIABLES l, s
T(x) == <<x[1], x[2], x[3], x[4]>>
Init0 == [run |-> -1, subnets |-> <<>>, lat |-> 0, lossfree |-> FALSE, claims |-> {}, wires |-> {}, open |-> {}, done |-> {},
          bad |-> {}, nbad |-> 0, runs |-> 0, events |-> 0]
Viol(t, e, clause) ==
  IF Cardinality({x \in t.bad : x.clause = clause}) >= 3 THEN [t EXCEPT !.nbad = @ + 1]
  ELSE [t EXCEPT !.bad = @ \cup {[run |-> t.run, i |-> e.i, clause |-> clause]}, !.nbad = @ + 1]
\* same network iff the first `mask` bits agree (whole bytes, then the leading bits of the next byte)
Pow2(n) == IF n = 0 THEN 1 ELSE IF n = 1 THEN 2 ELSE IF n = 2 THEN 4 ELSE IF n = 3 THEN 8 ELSE IF n = 4 THEN 16 ELSE IF n = 5 THEN 32 ELSE IF n = 6 THEN 64 ELSE 128
SameNet(a, b, mask) ==
  LET full == mask \div 8
      r == mask - 8 * full
  IN /\ \A k \in 1..full : a[k] = b[k]
     /\ (r = 0 \/ full >= 4 \/ (a[full + 1] \div Pow2(8 - r)) = (b[full + 1] \div Pow2(8 - r)))
Target(t, m, local, remote) ==
  LET sn == t.subnets[m + 1] IN
  IF sn.set /\ local = T(sn.addr) /\ ~SameNet(local, remote, sn.mask) THEN T(sn.gw) ELSE remote
Owners(t, ip) == {c \in t.claims : c.ip = ip}
\* the premise of the loss-free clause: the owner's claim is more than a round trip older than the resolution (a claim made
\* at the same instant has reached nobody yet), and if this machine has cached a failure for the address, an ARP packet of the
\* owner has reached it since (the code keeps a failed resolution until a packet of the owner repairs it; a claim alone --
\* e.g. the owner resolving from its own cache -- puts nothing on the wire)
Owned0(t, e, tg) ==
  LET claimed == \E c \in Owners(t, tg) : c.t + 2 * t.lat + 1000 < e.t
      fails == {d \in t.done : d.m = e.m /\ d.target = tg /\ d.res < 0}
      lastfail == IF fails = {} THEN -1 ELSE (CHOOSE d \in fails : \A x \in fails : x.t1 <= d.t1).t1
      announced == \E q \in t.wires : q.ok /\ q.sip = tg /\ (q.dst = -1 \/ q.dst = e.mac) /\ q.t >= lastfail /\ q.t + t.lat + 1000 < e.t
  IN claimed /\ (fails = {} \/ announced)
Step(t, e) ==
  LET t0 == [t EXCEPT !.events = @ + 1] IN
  CASE e.ev = "reset" -> [t0 EXCEPT !.run = e.run, !.runs = @ + 1, !.subnets = e.subnets, !.lat = e.lat, !.lossfree = (e.loss = 0 /\ e.only_kth = 0),
                                   !.claims = {}, !.wires = {}, !.open = {}, !.done = {}]
    [] e.ev = "claim" -> [t0 EXCEPT !.claims = @ \cup {[ip |-> T(e.ip), m |-> e.m, mac |-> e.mac, t |-> e.t]}]
    [] e.ev = "arpwire" -> [t0 EXCEPT !.wires = @ \cup {[oper |-> e.oper, smac |-> e.smac, sip |-> T(e.sip), tip |-> T(e.tip),
                                                         dst |-> e.dst, ok |-> e.delivered, t |-> e.t, i |-> e.i]}]
    [] e.ev = "rstart" ->
         \* resolving also claims the local address (Arp::resolve calls listen)
         [t0 EXCEPT !.open = @ \cup {[rid |-> e.rid, m |-> e.m, mac |-> e.mac, local |-> T(e.local),
                                      target |-> Target(t, e.m, T(e.local), T(e.remote)), t0 |-> e.t,
                                      owned0 |-> Owned0(t, e, Target(t, e.m, T(e.local), T(e.remote)))]},
                    !.claims = @ \cup {[ip |-> T(e.local), m |-> e.m, mac |-> e.mac, t |-> e.t]}]
    [] e.ev = "rend" ->
         LET r == CHOOSE x \in t.open : x.rid = e.rid
             own == Owners(t, r.target)
             exch == \E q \in t.wires : q.oper = 1 /\ q.ok /\ q.smac = r.mac /\ q.tip = r.target /\ q.t >= r.t0 /\
                       \E p \in t.wires : p.oper = 2 /\ p.ok /\ p.sip = r.target /\ p.dst = r.mac /\ p.t >= q.t /\ p.t <= e.t
             t1 == IF e.res >= 0 /\ ~\E c \in own : c.mac = e.res
                   THEN Viol(t0, e, "resolved to a hardware address that is not the owner's (or the configured gateway's)") ELSE t0
             t2 == IF exch /\ e.res < 0 THEN Viol(t1, e, "a request/reply exchange got through but the resolution failed") ELSE t1
             \* (a resolution that failed although the answer to its LAST request was on its way is judged at the end of the
             \* run, when the reply is in the trace: LateExchange)
             t3a == IF own = {} /\ e.res >= 0 THEN Viol(t2, e, "an address nobody claims was resolved") ELSE t2
             \* on a network that loses nothing, an address whose owner had claimed it (and, if it appeared late, announced
             \* itself) before the resolution started is resolved -- also when an earlier resolution of it failed
             t3 == IF t.lossfree /\ r.owned0 /\ e.res < 0
                   THEN Viol(t3a, e, "an address that its owner had claimed before the resolution started was not resolved on a loss-free network") ELSE t3a
             t4 == IF e.t - r.t0 > 2000000 + 4 * t.lat THEN Viol(t3, e, "a resolution took longer than the bounded retry period (10 x 200 ms)") ELSE t3
             \* concurrent resolvers of one address on one machine get the same answer
             t5 == IF \E d \in t.done : d.m = r.m /\ d.target = r.target /\ d.t1 > r.t0 /\ d.res # e.res
                   THEN Viol(t4, e, "concurrent resolvers of the same address on one machine got different answers") ELSE t4
         IN [t5 EXCEPT !.open = @ \ {r}, !.done = @ \cup {[rid |-> r.rid, m |-> r.m, mac |-> r.mac, target |-> r.target, t0 |-> r.t0, t1 |-> e.t, res |-> e.res, i |-> e.i]}]
    [] e.ev = "end" ->
         LET t1 == IF t.open = {} THEN t0 ELSE Viol(t0, e, "a resolution never returned (hangs)")
             \* every request of the retry budget counts: a resolver that gives up while the reply to a request it sent
             \* (and that was delivered) is delivered to it has not used its budget
             late == {d \in t.done : d.res < 0 /\
                        \E q \in t.wires : q.oper = 1 /\ q.ok /\ q.smac = d.mac /\ q.tip = d.target /\ q.t >= d.t0 /\ q.t <= d.t1 /\
                          \E p \in t.wires : p.oper = 2 /\ p.ok /\ p.sip = d.target /\ p.dst = d.mac /\ p.t >= q.t /\ p.t <= q.t + 2 * t.lat + 1000}
         IN IF late = {} THEN t1
            ELSE Viol(t1, [e EXCEPT !.i = (CHOOSE d \in late : TRUE).i], "a request/reply exchange of the retry budget got through but the resolution failed")
    [] e.ev = "panic" -> Viol(t0, e, "panic: " \o e.msg \o " at " \o e.loc)
    [] e.ev = "hang" -> Viol(t0, e, "the scenario never ended: the code under test kept producing events without bound or stopped making progress (" \o e.why \o ")")
    [] OTHER -> t0
Init == l = 1 /\ s = Init0
Next == l <= Len(Rec) /\ s' = Step(s, Rec[l]) /\ l' = l + 1
Spec == Init /\ [][Next]_<<l, s>>
Report == TLCSet(1, [bad |-> s.bad, nbad |-> s.nbad, runs |-> s.runs, events |-> s.events])
Final == /\ PrintT(<<"TRACE-RESULT", ToJson(TLCGet(1))>>)
         /\ PrintT(<<"TRACE-SUMMARY", ToJson([events |-> Len(Rec), consumed |-> TLCGet("stats").diameter - 1])>>)
=============================================================================
