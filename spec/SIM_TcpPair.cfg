SPECIFICATION Spec
CONSTANTS
  MSS = 2
  W = 3
  MaxBytes <- MB42
  MaxWrite = 4
  Drops = 2
  Dups = 1
  Rtos = 3
  MayClose <- CloseBoth
  SimOpen = FALSE
  Injects = 0
  OldSyn = FALSE
  HistLen = 45
INVARIANTS PrefixInv WireInv WindowInv NoResetInv SyncInv QuiescentInv EmitSchedule
CHECK_DEADLOCK FALSE
CONSTRAINT Bound
