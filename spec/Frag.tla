-------------------------------- MODULE Frag --------------------------------
(***************************************************************************)
(* IPv4 fragmentation (RFC 791 p.26, fragmentation.rs) as a function, and  *)
(* the partition property C10.  A datagram is <<fo, len, mf>> (fragment    *)
(* offset in 8-byte blocks, payload bytes, more-fragments) plus DF; the    *)
(* header has IHL = 5 (HL = 20 bytes).                                     *)
(***************************************************************************)
EXTENDS Integers, Sequences
HL == 20

Piece(fo, len, mf) == [fo |-> fo, len |-> len, mf |-> mf]

RECURSIVE Split(_, _, _, _)
Split(fo, len, mf, mtu) ==
  IF len + HL <= mtu THEN <<Piece(fo, len, mf)>>
  ELSE LET nfb == (mtu - HL) \div 8 IN
       <<Piece(fo, nfb * 8, TRUE)>> \o Split(fo + nfb, len - nfb * 8, mf, mtu)

\* fragmentation.rs::fragment : "DontFragment" / "Discard" / "Fragmented"
Kind(len, df, mtu) == IF len + HL <= mtu THEN "DontFragment" ELSE IF df THEN "Discard" ELSE "Fragmented"
Fragment(p, df, mtu) == IF Kind(p.len, df, mtu) = "Discard" THEN <<>> ELSE Split(p.fo, p.len, p.mf, mtu)

\* fragmenting every piece again for the next (smaller) MTU of a chain
RECURSIVE Flat(_, _, _)
Flat(ps, df, mtu) == IF ps = <<>> THEN <<>> ELSE Fragment(Head(ps), df, mtu) \o Flat(Tail(ps), df, mtu)
RECURSIVE Chain(_, _, _)
Chain(ps, df, mtus) == IF mtus = <<>> THEN ps ELSE Chain(Flat(ps, df, Head(mtus)), df, Tail(mtus))

(***************************************************************************)
(* C10 as a predicate on the pieces ps obtained from the original o for    *)
(* final MTU m                                                             *)
(***************************************************************************)
Partition(o, ps, m) ==
  /\ ps # <<>>
  /\ \A i \in 1..Len(ps) : ps[i].len + HL <= m                                   \* fits
  /\ ps[1].fo = o.fo
  /\ \A i \in 1..(Len(ps) - 1) : ps[i].len % 8 = 0 /\ ps[i + 1].fo = ps[i].fo + ps[i].len \div 8   \* consecutive, aligned
  /\ \A i \in 1..(Len(ps) - 1) : ps[i].mf                                        \* MF on all but the last
  /\ ps[Len(ps)].mf = o.mf
  /\ (ps[Len(ps)].fo - o.fo) * 8 + ps[Len(ps)].len = o.len                       \* covers exactly

(***************************************************************************)
(* Model: all originals and MTU chains of a scaled domain                  *)
(***************************************************************************)
CONSTANTS MaxLen, MtuLo, MtuHi
VARIABLES o, df, mtus
Init == /\ o \in {Piece(fo, len, mf) : fo \in {0, 3}, len \in 0..MaxLen, mf \in BOOLEAN}
        /\ df \in BOOLEAN
        /\ mtus \in {<<a>> : a \in MtuLo..MtuHi} \cup {<<a, b>> : a \in MtuLo..MtuHi, b \in MtuLo..MtuHi}
                    \cup {<<a, b, c>> : a \in {MtuHi, MtuHi - 3}, b \in MtuLo..MtuHi, c \in {MtuLo, MtuLo + 1, MtuLo + 8}}
Next == UNCHANGED <<o, df, mtus>>
Spec == Init /\ [][Next]_<<o, df, mtus>>

Decreasing == \A i \in 1..(Len(mtus) - 1) : mtus[i] >= mtus[i + 1]
Last(s) == s[Len(s)]
PartitionInv ==
  Decreasing =>
    LET ps == Chain(<<o>>, df, mtus) IN
    IF df /\ \E i \in 1..Len(mtus) : o.len + HL > mtus[i] THEN ps = <<>>     \* discarded
    ELSE Partition(o, ps, Last(mtus))
PassThrough == o.len + HL <= mtus[1] => Fragment(o, df, mtus[1]) = <<o>>
=============================================================================
