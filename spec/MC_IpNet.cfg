SPECIFICATION Spec
CONSTANTS
  Wd = 4
  Vals = {1}
  MaxOps = 0
INVARIANTS NetArith
CHECK_DEADLOCK FALSE
