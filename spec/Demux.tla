------------------------------- MODULE Demux -------------------------------
(***************************************************************************)
(* C04.  Listen bindings and demultiplexing of udp.rs / ipv4.rs on one     *)
(* machine (machines are independent: a frame either reaches a machine or  *)
(* not).  Code-shaped: Udp::listen inserts (addr, port) -> app unless      *)
(* present and then asks Ipv4 to bind (addr, UDP) -> Udp; an arriving      *)
(* datagram passes Ipv4::demux (exact address, else 0.0.0.0, else drop)    *)
(* and Udp::demux (exact endpoint, else (0.0.0.0, port), else drop).       *)
(* The property is stated on the endpoint table alone; TLC checks that the *)
(* two-stage lookup of the code coincides with it for every bind history.  *)
(***************************************************************************)
EXTENDS Integers, FiniteSets, TLC
CONSTANTS Apps, Addrs, Ports, MaxBinds      \* Addrs includes "ANY"
VARIABLES udpBind, ipBind, refused, n
vars == <<udpBind, ipBind, refused, n>>
Eps == Addrs \X Ports
Init == udpBind = [e \in {} |-> 0] /\ ipBind = {} /\ refused = {} /\ n = 0
Listen(app, e) ==
  /\ n < MaxBinds /\ n' = n + 1
  /\ IF e \in DOMAIN udpBind
     THEN refused' = refused \cup {<<app, e>>} /\ UNCHANGED <<udpBind, ipBind>>
     ELSE /\ udpBind' = [x \in DOMAIN udpBind \cup {e} |-> IF x = e THEN app ELSE udpBind[x]]
          /\ ipBind' = ipBind \cup {e[1]}
          /\ UNCHANGED refused
Next == \E app \in Apps, e \in Eps : Listen(app, e)
Spec == Init /\ [][Next]_vars
\* the code: two stages
Ipv4Up(a) == a \in ipBind \/ "ANY" \in ipBind
UdpUp(a, p) == IF <<a, p>> \in DOMAIN udpBind THEN udpBind[<<a, p>>]
               ELSE IF <<"ANY", p>> \in DOMAIN udpBind THEN udpBind[<<"ANY", p>>] ELSE "drop"
Deliver(a, p) == IF Ipv4Up(a) THEN UdpUp(a, p) ELSE "drop"
\* the property: exact binding wins, else wildcard, else nothing; never another port or another specific address
Entitled(a, p) == IF <<a, p>> \in DOMAIN udpBind THEN udpBind[<<a, p>>]
                  ELSE IF <<"ANY", p>> \in DOMAIN udpBind THEN udpBind[<<"ANY", p>>] ELSE "drop"
Isolation == \A a \in Addrs \ {"ANY"}, p \in Ports : Deliver(a, p) = Entitled(a, p)
NeverWrongPort == \A a \in Addrs \ {"ANY"}, p \in Ports :
   Deliver(a, p) # "drop" => \E e \in DOMAIN udpBind : udpBind[e] = Deliver(a, p) /\ e[2] = p /\ e[1] \in {a, "ANY"}
BindOnce == \A r \in refused : r[2] \in DOMAIN udpBind     \* a refused bind leaves the first binding in force
=============================================================================
