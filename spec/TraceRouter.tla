----------------------------- MODULE TraceRouter -----------------------------
(***************************************************************************)
(* C16 on real ArpRouter topologies.  From the recorded configuration      *)
(* (subnets, router attachments, static routes, hosts and their gateways)  *)
(* the specification walks each datagram: host -> (gateway) -> hop by hop  *)
(* along the configured routes, TTL 30 decremented per hop, dropped at 0,  *)
(* at a missing route or at an unreachable next hop.  The IPv4 frames seen *)
(* on every network and the host-level deliveries must be exactly that.    *)
(***************************************************************************)
EXTENDS Integers, Sequences, FiniteSets, TLC, Json, IOUtils
Rec == ndJsonDeserialize(IOEnv.TRACE)
VARIABLES l, s
T(x) == <<x[1], x[2], x[3], x[4]>>
Init0 == [run |-> -1, cfg |-> [nsub |-> 0], sends |-> {}, wires |-> {}, recvs |-> {},
          bad |-> {}, nbad |-> 0, runs |-> 0, events |-> 0]
Viol(t, e, clause) ==
  IF Cardinality({x \in t.bad : x.clause = clause}) >= 3 THEN [t EXCEPT !.nbad = @ + 1]
  ELSE [t EXCEPT !.bad = @ \cup {[run |-> t.run, i |-> e.i, clause |-> clause]}, !.nbad = @ + 1]
HostIdx(c, ip) == {k \in 1..Len(c.hosts) : T(c.hosts[k].ip) = ip}
RouteOf(c, r, d) == {x \in {c.routes[r + 1][k] : k \in 1..Len(c.routes[r + 1])} : x.d = d}
Attached(c, r, sub) == \E k \in 1..Len(c.attach[r + 1]) : c.attach[r + 1][k] = sub
\* frames <<net, ttl>> emitted from router r for a datagram to dst that arrived with TTL t
RECURSIVE Hop(_, _, _, _, _)
Hop(c, r, t, dst, fuel) ==
  LET t1 == t - 1
      rt == RouteOf(c, r, dst[2]) IN
  IF fuel = 0 \/ t1 = 0 \/ rt = {} THEN [frames |-> <<>>, delivered |-> FALSE]
  ELSE LET x == CHOOSE y \in rt : TRUE IN
       IF x.direct
       THEN IF dst[2] = x.out /\ HostIdx(c, dst) # {} THEN [frames |-> <<<<x.out, t1>>>>, delivered |-> TRUE]
            ELSE [frames |-> <<>>, delivered |-> FALSE]
       ELSE IF x.nr >= 0 /\ x.nr < c.nr /\ Attached(c, x.nr, x.out)
            THEN LET rest == Hop(c, x.nr, t1, dst, fuel - 1) IN
                 [frames |-> <<<<x.out, t1>>>> \o rest.frames, delivered |-> rest.delivered]
            ELSE [frames |-> <<>>, delivered |-> FALSE]
Walk(c, src, dst) ==
  LET sa == src[2]
      h == c.hosts[CHOOSE k \in HostIdx(c, src) : TRUE] IN
  IF dst[2] = sa
  THEN IF HostIdx(c, dst) # {} THEN [frames |-> <<<<sa, 30>>>>, delivered |-> TRUE] ELSE [frames |-> <<>>, delivered |-> FALSE]
  ELSE IF h.gw < 0 THEN [frames |-> <<>>, delivered |-> FALSE]
  ELSE LET rest == Hop(c, h.gw, 30, dst, 31) IN
       [frames |-> <<<<sa, 30>>>> \o rest.frames, delivered |-> rest.delivered]
Judge(t, e) ==
  LET c == t.cfg
      Check(tt, sd) ==
        LET src == T(c.hosts[sd.h + 1].ip)
            w == Walk(c, src, sd.dst)
            obs == {x \in t.wires : x.id = sd.id}
            rc == {x \in t.recvs : x.id = sd.id}
            expset == {w.frames[k] : k \in 1..Len(w.frames)}
            t1 == IF {<<x.net, x.ttl>> : x \in obs} = expset THEN tt
                  ELSE Viol(tt, e, "the networks and TTLs on which a datagram was seen are not the configured route walked hop by hop (TTL decremented by one per hop, dropped at 0 / no route / unreachable next hop)")
            t2 == IF Cardinality(obs) = Len(w.frames) THEN t1 ELSE Viol(t1, e, "forwarding multiplied (or lost) a packet: number of frames differs from the number of hops")
            t3 == IF Cardinality(obs) <= 30 THEN t2 ELSE Viol(t2, e, "a datagram outlived its initial time-to-live")
            t4 == IF \A x \in obs : x.src = src /\ x.dst = sd.dst THEN t3 ELSE Viol(t3, e, "a router altered source or destination address")
            want == IF w.delivered THEN HostIdx(c, sd.dst) ELSE {}
            t5 == IF {x.h + 1 : x \in rc} = want /\ Cardinality(rc) = Cardinality(want) /\ \A x \in rc : x.intact
                  THEN t4 ELSE Viol(t4, e, "a datagram was not delivered exactly to the destination host's application, payload unchanged")
        IN IF sd.ok THEN t5
           ELSE IF Walk(c, src, sd.dst).frames = <<>> /\ {x \in t.wires : x.id = sd.id} = {} THEN tt
           ELSE Viol(tt, e, "a send failed although the first hop is resolvable (or frames appeared for a failed send)")
      F[S \in SUBSET t.sends] == IF S = {} THEN t ELSE LET sd == CHOOSE x \in S : TRUE IN Check(F[S \ {sd}], sd)
  IN F[t.sends]
Step(t, e) ==
  LET t0 == [t EXCEPT !.events = @ + 1] IN
  CASE e.ev = "reset" -> [t0 EXCEPT !.run = e.run, !.runs = @ + 1, !.cfg = e, !.sends = {}, !.wires = {}, !.recvs = {}]
    [] e.ev = "hsend" -> [t0 EXCEPT !.sends = @ \cup {[h |-> e.h, id |-> e.id, dst |-> T(e.dst), ok |-> e.ok]}]
    [] e.ev = "ipwire" -> [t0 EXCEPT !.wires = @ \cup {[net |-> e.net, ttl |-> e.ttl, src |-> T(e.src), dst |-> T(e.dst), id |-> e.id, i |-> e.i]}]
    [] e.ev = "hrecv" -> [t0 EXCEPT !.recvs = @ \cup {[h |-> e.h, id |-> e.id, intact |-> e.intact, i |-> e.i]}]
    [] e.ev = "end" -> Judge(t0, e)
    [] e.ev = "panic" -> Viol(t0, e, "panic: " \o e.msg \o " at " \o e.loc)
    [] e.ev = "hang" -> Viol(t0, e, "the networks do not fall silent: the scenario never ended: the code under test kept producing events without bound or stopped making progress (" \o e.why \o ")")
    [] OTHER -> t0
Init == l = 1 /\ s = Init0
Next == l <= Len(Rec) /\ s' = Step(s, Rec[l]) /\ l' = l + 1
Spec == Init /\ [][Next]_<<l, s>>
Report == TLCSet(1, [bad |-> s.bad, nbad |-> s.nbad, runs |-> s.runs, events |-> s.events])
Final == /\ PrintT(<<"TRACE-RESULT", ToJson(TLCGet(1))>>)
         /\ PrintT(<<"TRACE-SUMMARY", ToJson([events |-> Len(Rec), consumed |-> TLCGet("stats").diameter - 1])>>)
=============================================================================
