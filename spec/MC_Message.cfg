SPECIFICATION Spec
CONSTANTS
  Byte = {1, 2}
  MaxChunk = 2
  MaxPool = 3
  MaxOps = 4
INVARIANTS Refines WellFormed
PROPERTY Independent
CHECK_DEADLOCK FALSE
