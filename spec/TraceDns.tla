------------------------------ MODULE TraceDns ------------------------------
(***************************************************************************)
(* C20 on a real DnsServer and real DnsClients.  Property-level state: the *)
(* records (name index -> address), per client the names it has resolved   *)
(* successfully, the queries seen on the wire.                             *)
(*   Right  : a lookup returns the registered address                      *)
(*   Echo   : every reply on the wire answers a query with the same id and *)
(*            name, sent from the port the reply is addressed to, and      *)
(*            carries the registered address                               *)
(*   Cached : a lookup of a name the client has already resolved returns   *)
(*            at once and puts no frame on the network                     *)
(***************************************************************************)
EXTENDS Integers, Sequences, FiniteSets, TLC, Json, IOUtils
Rec == ndJsonDeserialize(IOEnv.TRACE)
VARIABLES l, s
T(x) == <<x[1], x[2], x[3], x[4]>>
Init0 == [run |-> -1, ips |-> <<>>, known |-> {}, open |-> {}, queries |-> {}, cachedOpen |-> {},
          bad |-> {}, nbad |-> 0, runs |-> 0, events |-> 0]
Viol(t, e, clause) ==
  IF Cardinality({x \in t.bad : x.clause = clause}) >= 3 THEN [t EXCEPT !.nbad = @ + 1]
  ELSE [t EXCEPT !.bad = @ \cup {[run |-> t.run, i |-> e.i, clause |-> clause]}, !.nbad = @ + 1]
Step(t, e) ==
  LET t0 == [t EXCEPT !.events = @ + 1] IN
  CASE e.ev = "reset" ->
         LET t9 == IF t.open = {} THEN t0 ELSE Viol(t0, [i |-> 0], "a lookup of a registered name never returned (the run ended abnormally)") IN
         [t9 EXCEPT !.run = e.run, !.runs = @ + 1, !.ips = e.ips, !.known = {}, !.open = {}, !.queries = {}, !.cachedOpen = {}]
    [] e.ev = "lstart" ->
         [t0 EXCEPT !.open = @ \cup {[lid |-> e.lid, c |-> e.c, name |-> e.name, t |-> e.t, cached |-> <<e.c, e.name>> \in t.known]},
                    !.cachedOpen = IF <<e.c, e.name>> \in t.known THEN @ \cup {e.c} ELSE @]
    [] e.ev = "lend" ->
         LET r == CHOOSE x \in t.open : x.lid = e.lid
             cached == r.cached                 \* already resolved when this lookup began
             t1 == IF e.ok /\ T(e.ip) = T(t.ips[e.name + 1]) THEN t0
                   ELSE Viol(t0, e, "a lookup did not return the address registered for the name")
             t2 == IF cached /\ e.t # r.t THEN Viol(t1, e, "a lookup of an already resolved name did not answer from the cache at once") ELSE t1
         IN [t2 EXCEPT !.open = @ \ {r}, !.known = IF e.ok THEN @ \cup {<<e.c, e.name>>} ELSE @, !.cachedOpen = @ \ {e.c}]
    [] e.ev = "dnswire" ->
         IF e.dir = "q"
         THEN LET t1 == IF e.c \in t.cachedOpen /\ <<e.c, e.name>> \in t.known /\
                           ~\E o \in t.open : o.c = e.c /\ o.name = e.name /\ o.t < e.t
                        THEN Viol(t0, e, "a cached lookup put a frame on the network") ELSE t0
              IN [t1 EXCEPT !.queries = @ \cup {[id |-> e.id, name |-> e.name, c |-> e.c, port |-> e.cport]}]
         ELSE LET q == {x \in t.queries : x.c = e.c /\ x.port = e.cport}
                  t1 == IF \E x \in q : x.id = e.id /\ x.name = e.name /\ e.aname = e.name THEN t0
                        ELSE Viol(t0, e, "a reply does not echo the identifier and name of the query it answers")
              IN IF e.name >= 0 /\ T(e.ans) = T(t.ips[e.name + 1]) THEN t1
                 ELSE Viol(t1, e, "a reply carries another address than the registered one")
    [] e.ev = "end" -> IF t.open = {} THEN t0 ELSE Viol(t0, e, "a lookup of a registered name never returned")
    \* (the server task panics when the simulation shuts down while it waits for further connections; C20 does
    \* not speak about shutdown: a crash that matters shows up as a lookup that never returns)
    [] e.ev = "hang" -> Viol(t0, e, "a lookup never returned: the scenario never ended (" \o e.why \o ")")
    [] e.ev = "panic" -> t0
    [] OTHER -> t0
Init == l = 1 /\ s = Init0
Next == l <= Len(Rec) /\ s' = Step(s, Rec[l]) /\ l' = l + 1
Spec == Init /\ [][Next]_<<l, s>>
Report == TLCSet(1, [bad |-> s.bad, nbad |-> s.nbad, runs |-> s.runs, events |-> s.events])
Final == /\ PrintT(<<"TRACE-RESULT", ToJson(TLCGet(1))>>)
         /\ PrintT(<<"TRACE-SUMMARY", ToJson([events |-> Len(Rec), consumed |-> TLCGet("stats").diameter - 1])>>)
=============================================================================
