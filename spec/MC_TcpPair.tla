---------------------------- MODULE MC_TcpPair ----------------------------
(* Model-checking instances of TcpPair: function-valued constants for the .cfg files *)
EXTENDS TcpPair
MB00 == [A |-> 0, B |-> 0]
MB10 == [A |-> 1, B |-> 0]
MB20 == [A |-> 2, B |-> 0]
MB21 == [A |-> 2, B |-> 1]
MB32 == [A |-> 3, B |-> 2]
MB42 == [A |-> 4, B |-> 2]
MB63 == [A |-> 6, B |-> 3]
CloseNone == [A |-> FALSE, B |-> FALSE]
CloseA == [A |-> TRUE, B |-> FALSE]
CloseB == [A |-> FALSE, B |-> TRUE]
CloseBoth == [A |-> TRUE, B |-> TRUE]
=============================================================================
