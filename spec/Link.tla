-------------------------------- MODULE Link --------------------------------
(***************************************************************************)
(* C05.  One simulated network (network.rs) with its taps (pci_session.rs):*)
(* PciSession::send_pci (MTU check, then a spawned task) and the steps of  *)
(* Network::send: wait for the throughput permit, hold it for len*1000/Bps *)
(* ms, release it, sleep the latency, fan out to the owner of the address  *)
(* or, for a broadcast, to every tap (the sender's own tap included: that  *)
(* is what the code does; the property only demands "every other tap").    *)
(* Time is explicit; every interleaving of concurrent sends is explored.    *)
(***************************************************************************)
EXTENDS Integers, FiniteSets, TLC
CONSTANTS Macs,        \* hardware addresses of the taps (distinct by construction: next_mac under a mutex)
          Frames,      \* set of frame ids
          Src, Dst, Len,   \* functions on Frames; Dst[f] \in Macs \cup {"bcast", "unknown"}
          Mtu, Lat, Bps,   \* Bps = 0: unlimited; transmission time of f: Len[f] * 1000 \div Bps (model ms)
          Horizon

VARIABLES phase, now, permit, sentAt, txStart, txEnd, due, got
vars == <<phase, now, permit, sentAt, txStart, txEnd, due, got>>
Tx(f) == IF Bps = 0 THEN 0 ELSE (Len[f] * 1000) \div Bps

Init == /\ phase = [f \in Frames |-> "idle"] /\ now = 0 /\ permit = TRUE
        /\ sentAt = [f \in Frames |-> -1] /\ txStart = [f \in Frames |-> -1] /\ txEnd = [f \in Frames |-> -1]
        /\ due = [f \in Frames |-> -1] /\ got = [f \in Frames |-> {}]

SendPci(f) ==
  /\ phase[f] = "idle"
  /\ sentAt' = [sentAt EXCEPT ![f] = now]
  /\ IF Len[f] > Mtu THEN phase' = [phase EXCEPT ![f] = "refused"] /\ UNCHANGED <<due, txStart, txEnd, permit>>
     ELSE IF Bps = 0 THEN /\ phase' = [phase EXCEPT ![f] = "lat"] /\ due' = [due EXCEPT ![f] = now + Lat]
                          /\ UNCHANGED <<txStart, txEnd, permit>>
     ELSE phase' = [phase EXCEPT ![f] = "wait"] /\ UNCHANGED <<due, txStart, txEnd, permit>>
  /\ UNCHANGED <<now, got>>
Acquire(f) ==
  /\ phase[f] = "wait" /\ permit
  /\ permit' = FALSE /\ phase' = [phase EXCEPT ![f] = "tx"]
  /\ txStart' = [txStart EXCEPT ![f] = now] /\ txEnd' = [txEnd EXCEPT ![f] = now + Tx(f)]
  /\ UNCHANGED <<now, sentAt, due, got>>
TxDone(f) ==
  /\ phase[f] = "tx" /\ now >= txEnd[f]
  /\ permit' = TRUE /\ phase' = [phase EXCEPT ![f] = "lat"] /\ due' = [due EXCEPT ![f] = now + Lat]
  /\ UNCHANGED <<now, sentAt, txStart, txEnd, got>>
FanOut(f) ==
  /\ phase[f] = "lat" /\ now >= due[f]
  /\ phase' = [phase EXCEPT ![f] = "done"]
  /\ got' = [got EXCEPT ![f] = IF Dst[f] = "bcast" THEN Macs ELSE IF Dst[f] \in Macs THEN {Dst[f]} ELSE {}]
  /\ UNCHANGED <<now, permit, sentAt, txStart, txEnd, due>>
\* virtual time moves to the next deadline when nothing is due
Deadlines == {txEnd[f] : f \in {x \in Frames : phase[x] = "tx"}} \cup {due[f] : f \in {x \in Frames : phase[x] = "lat"}}
Advance ==
  /\ Deadlines # {} /\ \A d \in Deadlines : d > now
  /\ now' = CHOOSE d \in Deadlines : \A e \in Deadlines : d <= e
  /\ UNCHANGED <<phase, permit, sentAt, txStart, txEnd, due, got>>
Idle1 == /\ now < Horizon /\ \E f \in Frames : phase[f] = "idle"
         /\ now' = now + 1 /\ UNCHANGED <<phase, permit, sentAt, txStart, txEnd, due, got>>
Next == (\E f \in Frames : SendPci(f) \/ Acquire(f) \/ TxDone(f) \/ FanOut(f)) \/ Advance \/ Idle1
Spec == Init /\ [][Next]_vars

\* C05 ---------------------------------------------------------------------
Unicast == \A f \in Frames : (phase[f] = "done" /\ Dst[f] \in Macs) => got[f] = {Dst[f]}
Broadcast == \A f \in Frames : (phase[f] = "done" /\ Dst[f] = "bcast") => (Macs \ {Src[f]}) \subseteq got[f]
Nobody == \A f \in Frames : (phase[f] = "done" /\ Dst[f] = "unknown") => got[f] = {}
MtuRule == \A f \in Frames : (phase[f] = "refused") = (sentAt[f] >= 0 /\ Len[f] > Mtu)
RefusedSilent == \A f \in Frames : phase[f] = "refused" => got[f] = {} /\ due[f] = -1 /\ txStart[f] = -1
NotEarly == \A f \in Frames : phase[f] = "done" => due[f] >= sentAt[f] + Tx(f) + Lat
NoOverlap == \A f, g \in Frames : (f # g /\ txStart[f] >= 0 /\ txStart[g] >= 0) =>
                (txEnd[f] <= txStart[g] \/ txEnd[g] <= txStart[f])
OnePermit == Cardinality({f \in Frames : phase[f] = "tx"}) <= 1 /\ (permit = ({f \in Frames : phase[f] = "tx"} = {}))
\* nothing is lost on a loss-free network: when no step is possible every accepted frame has been delivered
Done == (~ENABLED Next) => \A f \in Frames : phase[f] \in {"done", "refused"}
=============================================================================
