------------------------------ MODULE TraceFrag ------------------------------
(***************************************************************************)
(* C10 on the real fragmentation.rs::fragment: every recorded call (an     *)
(* original datagram sent through a chain of decreasing MTUs) is compared  *)
(* with the pieces the specification Frag computes for the same input, and *)
(* the partition predicate is evaluated on what the code returned.         *)
(***************************************************************************)
EXTENDS Frag, FiniteSets, TLC, Json, IOUtils
Rec == ndJsonDeserialize(IOEnv.TRACE)
VARIABLES l, bad
TVars == <<l, bad>>

Got(e) == [i \in 1..Len(e.pieces) |-> Piece(e.pieces[i][1], e.pieces[i][2], e.pieces[i][3])]
Why(e) ==
  LET orig == Piece(e.fo, e.L, e.mf)
      exp == Chain(<<orig>>, e.df, e.mtus)
      got == Got(e)
      final == e.mtus[Len(e.mtus)]
  IN IF e.panic THEN "fragment() panicked"
     ELSE IF e.kind # Kind(e.L, e.df, e.mtus[1]) THEN "wrong kind of result (pass-through / discard / fragmented)"
     ELSE IF exp = <<>> THEN (IF e.discard /\ got = <<>> THEN "" ELSE "a datagram that forbids fragmentation and does not fit was not discarded")
     ELSE IF e.discard THEN "discarded although fragmentation is allowed or it fits"
     ELSE IF ~Partition(orig, got, final) THEN "the returned pieces are not a faithful partition of the datagram"
     ELSE IF got # exp THEN "pieces differ from the RFC 791 procedure"
     ELSE IF \E i \in 1..Len(e.pieces) : ~e.pieces[i][4] THEN "a header field other than TL/FO/MF changed"
     ELSE IF \E i \in 1..Len(e.pieces) : ~e.pieces[i][5] THEN "a piece does not carry the original bytes of its position"
     ELSE ""
TInit == l = 1 /\ bad = {} /\ o = Piece(0, 0, FALSE) /\ df = FALSE /\ mtus = <<>>
TNext == UNCHANGED <<o, df, mtus>> /\ l <= Len(Rec) /\ l' = l + 1
        /\ LET w == Why(Rec[l]) IN
           bad' = IF w = "" \/ Cardinality(bad) >= 8 THEN bad
                  ELSE bad \cup {[i |-> Rec[l].i, clause |-> w, L |-> Rec[l].L, fo |-> Rec[l].fo, mf |-> Rec[l].mf,
                                  df |-> Rec[l].df, mtus |-> Rec[l].mtus]}
TSpec == TInit /\ [][TNext]_<<l, bad, o, df, mtus>>
Report == TLCSet(1, [bad |-> bad, nbad |-> Cardinality(bad), runs |-> 1, events |-> l - 1])
Final == /\ PrintT(<<"TRACE-RESULT", ToJson(TLCGet(1))>>)
         /\ PrintT(<<"TRACE-SUMMARY", ToJson([events |-> Len(Rec), consumed |-> TLCGet("stats").diameter - 1])>>)
=============================================================================
