"""Specification growth beyond the 20 listed properties (not registered in MANIFEST.json; `bin/check X01`).
X01: the TCP protocol layer -- TcpLayer.tla (listen table, session table, demultiplexing, life of a session task)
     model-checked, and real machines driven without the socket layer validated by TraceTcpLayer.tla.
Deviations reported here are findings about the code's glue, not alarms for a listed property; evidence goes to work/."""
import os, json
from vlib import *


def run(prop, tier, seed, out, replay=None):
    out.level = "model_checking"
    out.extra = True
    build_harness(("hv-core",))
    log("[X01] model checking TcpLayer.tla")
    cfg = "MC_TcpLayer.cfg" if tier == "quick" else "MC_TcpLayer_big.cfg"
    r = tlc_check("TcpLayer.tla", os.path.join(SPEC, cfg), "tl", workers=8, timeout=1500)
    if r["violated"] or r["error"]:
        raise ToolError("TcpLayer.tla: %s %s" % (r["violated"], r["error"]))
    out.cov["states"] += r["distinct"]
    out.cov["transitions"] += r["states"]
    out.cov["model_runs"].append({"config": cfg, "distinct_states": r["distinct"], "complete": r["finished"]})
    log("  model %s: %s, %d distinct states" % (cfg, "complete" if r["finished"] else "not completed", r["distinct"]))
    log("[X01] real Tcp / TcpSession / Ipv4 / Pci machines, harness applications calling Tcp::listen / Tcp::open, hand-made segments; TraceTcpLayer.tla")
    tp = os.path.join(workdir("fn-X01"), "tcpl-drive.ndjson")
    n = 200 if tier == "quick" else 3000
    args = ["tcpl-drive", "--seed", str(seed), "--out", tp]
    hv_resumable(HV_CORE, args, n)
    chunk, total = 60000, {"events": 0, "answers_expected": 0, "answers_seen": 0, "connections_announced": 0, "bytes_delivered": 0}
    lines = open(tp).read().splitlines()
    start, k = 0, 0
    while start < len(lines):
        end = min(len(lines), start + chunk)
        while end < len(lines) and '"ev":"reset"' not in lines[end]:
            end += 1
        part = tp + ".part%d" % k
        open(part, "w").write("\n".join(lines[start:end]) + "\n")
        res = tlc_trace("TraceTcpLayer.tla", os.path.join(SPEC, "TraceTcpLayer.cfg"), part, "ttl")
        os.remove(part)
        for b in res["result"]["bad"]:
            out.violation("%s (run %s, event %s)" % (b["clause"], b["run"], b["i"]), {"driver": args + ["--runs", str(n)], "event": b, "spec": "TraceTcpLayer"})
        for key in total:
            total[key] += res["result"].get(key, 0)
        start, k = end, k + 1
    out.cov["traces_validated_against_impl"] += n
    out.cov["evaluations"] += total["events"]
    out.cov["rule"] = "scenarios: 1 server (2 addresses, 0-4 listeners exact / wildcard / replaced) x 1-3 clients x 0-6 hand-made segments; %s" % json.dumps(total)
    log("  %d scenarios validated: %s" % (n, json.dumps(total)))
