#!/bin/bash
# SWEEP_ONLY=C02 restricts the run to the seeds of one property
# runs every stored seeded change in the seedbox against the quick check of its property; log: work/seedsweep.log
cd /verif; bin/seedbox.sh sync > /dev/null
: > work/seedsweep.log
for d in /verif/seeded/${SWEEP_ONLY:-C}*/; do
  n=$(basename $d); prop=${n%%-*}
  patch=$d/patch.diff
  for rb in $d/patch-rebased-on-*.diff; do [ -f $rb ] && git -C /tmp/seedbox/repo apply --check $rb 2>/dev/null && patch=$rb; done
  if ! git -C /tmp/seedbox/repo apply --check $patch 2>/dev/null; then echo "$n: patch does not apply to the current tree" >> work/seedsweep.log; continue; fi
  r=$(bin/seedbox.sh test $patch $prop | grep -E "RESULT|TOOL-ERROR" | tail -1 | cut -c1-150)
  echo "$n: $r" >> work/seedsweep.log
done
echo done >> work/seedsweep.log
