#!/usr/bin/env python3
"""Regenerates the table of seeded-change experiments in DESIGN.md (section 0.6) from seeded/*/meta.json."""
import glob, json, os, re
ROOT = os.path.dirname(os.path.dirname(os.path.abspath(__file__)))
rows = []
for p in sorted(glob.glob(os.path.join(ROOT, "seeded", "C*", "meta.json"))):
    m = json.load(open(p))
    rows.append("| `seeded/%s` | %s | %s | %s | %s |" % (os.path.basename(os.path.dirname(p)), m["property"], m["change"], m["needs"], m["result"]))
table = "| directory | prop | change | what it needs to manifest | result of the check |\n|---|---|---|---|---|\n" + "\n".join(rows)
d = os.path.join(ROOT, "DESIGN.md")
s = open(d).read()
s = re.sub(r"<!-- SEEDED-TABLE-BEGIN -->.*?<!-- SEEDED-TABLE-END -->", lambda _: "<!-- SEEDED-TABLE-BEGIN -->\n" + table + "\n<!-- SEEDED-TABLE-END -->", s, flags=re.S)
open(d, "w").write(s)
print("%d seeded changes" % len(rows))
