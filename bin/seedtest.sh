#!/bin/bash
# usage: seedtest.sh <patch> <Cxx> [tier]   -- apply a seeded change to /repo, run a check, undo
set -u
patch=$1; prop=$2; tier=${3:-quick}
cd /repo && git status --short | grep -q . && { echo "repo not clean"; exit 2; }
git -C /repo apply "$patch" || exit 2
cd /verif && bin/check "$prop" --tier "$tier" 2>&1 | grep -E "VIOLATION|KNOWN-FINDING|RESULT|DRIFT|Error|error" | head -20
rc=${PIPESTATUS[0]}
git -C /repo checkout -- .
echo "exit=$rc"
