#!/bin/bash
# seedbox.sh init            -- (re)create /tmp/seedbox: a git worktree of /repo plus a copy of /verif whose harness points at it
# seedbox.sh test <patch> <Cxx> [tier]  -- apply a seeded change inside the box, run the check there, undo
# Lets seeded-change experiments run while /repo itself stays untouched (e.g. during long thorough runs).
set -u
BOX=${SEEDBOX:-/tmp/seedbox}
case "$1" in
init)
  git -C /repo worktree remove --force $BOX/repo 2>/dev/null; git -C /repo worktree prune
  mkdir -p $BOX && git -C /repo worktree add -q --detach $BOX/repo HEAD || exit 2
  rsync -a --delete --exclude work --exclude .git /verif/ $BOX/verif/
  sed -i "s#/repo/sim#$BOX/repo/sim#" $BOX/verif/harness/*/Cargo.toml $BOX/verif/harness-cksum/*/Cargo.toml
  echo "seedbox ready at $BOX";;
sync)
  rsync -a --exclude work --exclude .git --exclude target /verif/ $BOX/verif/
  sed -i "s#/repo/sim#$BOX/repo/sim#" $BOX/verif/harness/*/Cargo.toml $BOX/verif/harness-cksum/*/Cargo.toml
  git -C $BOX/repo checkout -q --detach $(git -C /repo rev-parse HEAD); echo synced;;
test)
  patch=$2; prop=$3; tier=${4:-quick}
  git -C $BOX/repo status --short | grep -q . && { echo "box repo not clean"; exit 2; }
  git -C $BOX/repo apply "$patch" || exit 2
  (cd $BOX/verif && bin/check "$prop" --tier "$tier" > $BOX/last.log 2>&1; grep -E "VIOLATION|KNOWN-FINDING|DRIFT" $BOX/last.log | head -8 | cut -c1-260; grep -E "RESULT|TOOL-ERROR" $BOX/last.log | tail -2 | cut -c1-260)
  git -C $BOX/repo checkout -- . ; git -C $BOX/repo clean -fdq;;
esac
