"""C01, C03, C12, C17: the TCP connection state machine (Tcb.tla, TcpPair.tla, TraceTcp.tla, ModCmp.tla).

Legs (DESIGN.md 2.1):
  M  exhaustive TLC runs of TcpPair on small budgets (W = 3 units, the code's 65535 = 3 * 21845)
  R  TLC-simulated behaviours of TcpPair replayed step by step on two real Tcbs, lockstep comparison of
     the projected state with the specification (drift), and validation of the recorded events by the
     property-level spec; every behaviour under several ISN pairs (C12)
  T  seeded random / adversarial schedules on the real Tcbs with real sizes, validated by TraceTcp.tla
"""
import json, os, random
from vlib import *

UNIT = 21845

CFG_TMPL = """SPECIFICATION Spec
CONSTANTS
  U = 5
  MSS = {mss5}
  W = 15
  MaxBytes <- {mb}
  MaxWrite = {mw}
  Drops = {drops}
  Dups = {dups}
  Rtos = {rtos}
  MayClose <- {close}
  SimOpen = {sim}
  Injects = {inj}
  OldSyn = {old}
  HistLen = {hist}
{view}
INVARIANTS PrefixInv WireInv WindowInv NoResetInv SyncInv QuiescentInv {extra_inv}
{prop}
CHECK_DEADLOCK FALSE
CONSTRAINT Bound
"""


def cfg(name, mss=2, mb="MB20", mw=2, drops=1, dups=0, rtos=1, close="CloseNone", sim="FALSE", inj=0, old="FALSE",
        hist=0, simulate=False, live=False):
    d = workdir("cfg")
    p = os.path.join(d, name + ".cfg")
    tmpl = CFG_TMPL
    if live:
        # "eventually": every behaviour of the fair specification comes to rest (no cycle of protocol steps);
        # no state constraint, no VIEW (both are unsound for liveness)
        tmpl = (CFG_TMPL.replace("SPECIFICATION Spec", "SPECIFICATION FairSpec").replace("CONSTRAINT Bound\n", "")
                .replace("INVARIANTS PrefixInv WireInv WindowInv NoResetInv SyncInv QuiescentInv {extra_inv}", "INVARIANTS QuiescentInv"))
    open(p, "w").write(tmpl.format(
        mss5=mss * 5, mss=mss, mb=mb, mw=mw, drops=drops, dups=dups, rtos=rtos, close=close, sim=sim, inj=inj, old=old, hist=hist,
        view="" if (simulate or live) else "VIEW View", extra_inv="EmitSchedule" if simulate else "",
        prop="PROPERTY Termination" if live else ("" if simulate else "PROPERTY EdgeProp")))
    return p


# exhaustive configurations: (name, kwargs, serves)
MODEL_QUICK = [
    ("data-loss", dict(mss=2, mb="MB20", mw=2, drops=1, dups=1, rtos=1), {"C01", "C12"}),
    ("data-bidir", dict(mss=2, mb="MB21", mw=2, drops=0, dups=0, rtos=0), {"C01"}),
    ("close-both", dict(mss=2, mb="MB10", mw=1, drops=1, dups=0, rtos=1, close="CloseBoth"), {"C03"}),
    ("close-a-data", dict(mss=2, mb="MB20", mw=2, drops=1, dups=0, rtos=1, close="CloseA"), {"C03", "C01"}),
    ("simopen", dict(mss=2, mb="MB00", mw=1, drops=1, dups=0, rtos=1, close="CloseBoth", sim="TRUE"), {"C03"}),
    ("oldsyn", dict(mss=2, mb="MB10", mw=1, drops=1, dups=0, rtos=1, old="TRUE"), {"C03"}),
    ("inject-1", dict(mss=2, mb="MB10", mw=1, drops=0, dups=0, rtos=0, inj=1), {"C17"}),
    ("live-close-min", dict(mss=2, mb="MB00", mw=1, drops=0, dups=0, rtos=1, close="CloseBoth", live=True), {"C03"}),
]
MODEL_THOROUGH = MODEL_QUICK + [
    ("data-above-window", dict(mss=2, mb="MB42", mw=4, drops=0, dups=0, rtos=0), {"C01", "C12"}),
    ("data-loss-2", dict(mss=1, mb="MB20", mw=2, drops=2, dups=1, rtos=2), {"C01", "C12"}),
    ("close-both-data", dict(mss=1, mb="MB20", mw=2, drops=1, dups=0, rtos=1, close="CloseBoth"), {"C03"}),
    ("close-b-bidir", dict(mss=2, mb="MB21", mw=2, drops=0, dups=0, rtos=0, close="CloseBoth"), {"C03", "C01"}),
    ("simopen-data", dict(mss=2, mb="MB10", mw=1, drops=1, dups=1, rtos=1, close="CloseNone", sim="TRUE"), {"C03", "C01"}),
    ("inject-close", dict(mss=2, mb="MB00", mw=1, drops=0, dups=0, rtos=0, inj=1, close="CloseBoth"), {"C17"}),
    ("inject-2", dict(mss=2, mb="MB00", mw=1, drops=0, dups=0, rtos=0, inj=2), {"C17"}),
    ("live-close", dict(mss=2, mb="MB10", mw=1, drops=1, dups=0, rtos=1, close="CloseBoth", live=True), {"C03", "C01"}),
    ("live-data", dict(mss=2, mb="MB20", mw=2, drops=1, dups=1, rtos=1, live=True), {"C01"}),
    ("live-simopen", dict(mss=2, mb="MB00", mw=1, drops=1, dups=0, rtos=1, close="CloseBoth", sim="TRUE", live=True), {"C03"}),
]

# simulated behaviours for the replay leg: (name, kwargs, num, depth)
SIM = {
    "C01": [("sim-data", dict(mss=2, mb="MB42", mw=4, drops=2, dups=1, rtos=3, hist=50), 50),
            ("sim-data-so", dict(mss=1, mb="MB32", mw=3, drops=1, dups=1, rtos=2, sim="TRUE", hist=45), 45)],
    "C03": [("sim-close", dict(mss=2, mb="MB42", mw=4, drops=2, dups=1, rtos=3, close="CloseBoth", hist=50), 50),
            ("sim-close-so", dict(mss=2, mb="MB21", mw=2, drops=1, dups=0, rtos=2, close="CloseBoth", sim="TRUE", hist=45), 45),
            ("sim-oldsyn", dict(mss=2, mb="MB21", mw=2, drops=1, dups=0, rtos=2, close="CloseA", old="TRUE", hist=40), 40)],
    "C12": [("sim-isn", dict(mss=2, mb="MB42", mw=4, drops=2, dups=1, rtos=3, close="CloseBoth", hist=50), 50)],
    # (forged segments are covered by M and T; simulation would pick Inject almost always: 5376 successors per state)
    "C17": [("sim-c17", dict(mss=2, mb="MB21", mw=2, drops=1, dups=1, rtos=2, close="CloseBoth", hist=45), 45)],
}

PROFILES = {"C01": ["data", "simopen", "late"], "C03": ["close", "oldsyn", "data"], "C12": ["close"], "C17": ["inject"]}

ISNS = [[100, 300], [0xffffffff, 0], [0xfffffff0, 0x7ffffff0], [0x7fffffff, 0xffffffff], [0xffff5555, 0x80000001],
        [0xfffeeeee, 0xffff0000], [0x7fff0000, 0x7ffff000]]


def sched_from_hist(hist, kw, run, isns=None, profile="model"):
    listen_b = kw.get("sim", "FALSE") != "TRUE"
    steps = list(hist)
    if kw.get("old") == "TRUE":
        steps = [{"a": "oldsyn"}] + steps
        profile = "oldsyn"
    if kw.get("inj", 0):
        profile = "inject"
    s = {"run": run, "params": {"mtu": kw.get("mss", 2) * UNIT + 50, "issA": 100, "issB": 300,
                                "listenA": False, "listenB": listen_b},
         "profile": profile, "unit": UNIT, "steps": steps + [{"a": "fair", "rounds": 60}]}
    if isns:
        s["isns"] = isns
    return s


def judge(out, prop, res, scheds_path, driver, fair_names=("K4",)):
    """Turns the violations reported by TraceTcp into VIOLATION / KNOWN-FINDING for property `prop`."""
    r = res["result"]
    scheds = None
    known = {f["id"]: f for f in open_findings(prop)}
    n_new = 0
    for b in r["bad"]:
        if b["property"] != prop:
            continue
        tag = None
        if b["clause"].startswith("["):
            tag = b["clause"][1:b["clause"].index("]")]
        if tag and tag in known:
            out.known_finding(tag, known[tag]["what"])
            continue
        if scheds is None:
            scheds = {s.get("run"): s for s in read_ndjson(scheds_path)}
        # replayed schedules carry run = 100*k + variant
        s = scheds.get(b["run"]) or scheds.get(b["run"] // 100)
        out.violation("%s (event %d of run %d, %s)" % (b["clause"], b["i"], b["run"], b["ev"]),
                      {"driver": driver, "schedule": s, "event": b})
        n_new += 1
    return n_new


def run_model(out, prop, tier):
    confs = MODEL_THOROUGH if tier == "thorough" else MODEL_QUICK
    for name, kw, serves in confs:
        if prop not in serves:
            continue
        c = cfg("mc-" + name, **kw)
        to = 1500 if tier == "thorough" else 240
        r = tlc_check("MC_TcpPair.tla", c, "mc-" + prop + name, workers=12 if tier == "thorough" else 8, timeout=to,
                      dump=os.path.join(workdir("cex"), "%s-%s.json" % (prop, name)))
        out.cov["model_runs"].append({"config": name, "constants": kw, "distinct_states": r["distinct"],
                                      "states_generated": r["states"], "depth": r["depth"], "complete": r["finished"],
                                      "wall_s": r["wall_s"]})
        out.cov["states"] += r["distinct"]
        out.cov["transitions"] += r["states"]
        if r["violated"]:
            # the specification itself admits a bad state: the code is asked (DESIGN.md 3, model-level counterexamples)
            raise ToolError("TLC found %s violated on TcpPair[%s]; counterexample in work/cex: convert with "
                            "bin/cex2sched.py and replay on the code to decide (spec error or code defect)" % (r["violated"], name))
        if r["error"]:
            raise ToolError("TLC error on %s: %s" % (name, r["error"]))
        if r["timeout"] or not r["finished"]:
            log("  model %s: not completed within %ds (%d distinct states explored, no violation)" % (name, to, r["distinct"]))
            out.cov["exhaustive"] = False
        else:
            log("  model %s: %d distinct states, %d transitions, depth %d, %.0fs" % (name, r["distinct"], r["states"], r["depth"], r["wall_s"]))


def run_replay(out, prop, tier, seed):
    """R leg: TLC behaviours -> real Tcbs."""
    nsim = 400 if tier == "thorough" else 60
    total = {"runs": 0, "steps_compared": 0, "drift_steps": 0, "drift_runs": 0, "events": 0, "isn_mismatch": 0}
    for name, kw, depth in SIM[prop]:
        c = cfg(name, simulate=True, **kw)
        r = tlc_simulate("MC_TcpPair.tla", c, "sim-" + prop + name, nsim, depth + 1, seed, timeout=600)
        if r["violated"] or r["error"]:
            raise ToolError("simulation of %s failed: %s %s" % (name, r["violated"], r["error"]))
        rng = random.Random(seed)
        scheds = []
        for k, h in enumerate(r["payloads"]):
            isns = None
            if prop == "C12" or k % 4 == 0:
                isns = [ISNS[0]] + rng.sample(ISNS[1:], 3 if prop == "C12" else 1)
                if prop == "C12":
                    isns.append([rng.randrange(2 ** 32), rng.randrange(2 ** 32)])
            scheds.append(sched_from_hist(h, kw, k, isns))
        if not scheds:
            raise ToolError("no behaviours generated by " + name)
        d = workdir("tcp-" + prop)
        sp, tp = os.path.join(d, name + ".sched.ndjson"), os.path.join(d, name + ".trace.ndjson")
        write_ndjson(sp, scheds)
        st = hv(HV_CORE, ["tcb-replay", "--in", sp, "--out", tp])
        for k in total:
            total[k] += st.get(k, 0)
        res = tlc_trace("TraceTcp.tla", os.path.join(SPEC, "TraceTcp.cfg"), tp, "tr-" + prop + name)
        judge(out, prop, res, sp, "tcb-replay")
        out.cov["traces_validated_against_impl"] += res["result"]["runs"]
        out.cov["evaluations"] += res["result"]["events"]
        if len(out.cov["samples"]) < 2:
            out.cov["samples"].append({"kind": "TLC behaviour replayed on the real Tcb", "config": name,
                                       "steps": [{k: v for k, v in s.items() if k != "exp"} for s in scheds[0]["steps"][:14]]})
        log("  replay %s: %d behaviours -> %d runs, %d steps compared in lockstep, %d drift steps, %d events validated" % (
            name, len(scheds), st["runs"], st["steps_compared"], st["drift_steps"], res["result"]["events"]))
    out.cov["drift_events"] += total["drift_steps"]
    out.cov["replay"] = total
    if total["drift_steps"]:
        out.cov["model_bound"] = False
        log("DRIFT property=%s %d of %d replayed steps differ from the I-spec (no alarm; real-code exploration decides)" % (
            prop, total["drift_steps"], total["steps_compared"]))
    return total


def run_random(out, prop, tier, seed, escalate=False):
    """T leg: random schedules with real sizes on the real Tcbs."""
    nruns = 1500 if tier == "thorough" else 150
    if escalate:
        nruns *= 2
    cover = 0
    for prof in PROFILES[prop]:
        d = workdir("tcp-" + prop)
        sp, tp = os.path.join(d, prof + ".sched.ndjson"), os.path.join(d, prof + ".trace.ndjson")
        chunks = max(1, nruns // 300)
        for ch in range(chunks):
            n = nruns // chunks
            st = hv_hangsafe(HV_CORE, ["tcb-drive", "--seed", str(seed * 131 + ch), "--profile", prof,
                                       "--steps", "110", "--out", tp, "--sched", sp], n)
            cover = max(cover, st["cover"])
            res = tlc_trace("TraceTcp.tla", os.path.join(SPEC, "TraceTcp.cfg"), tp, "tt-" + prop + prof)
            judge(out, prop, res, sp, "tcb-replay")
            out.cov["traces_validated_against_impl"] += res["result"]["runs"]
            out.cov["evaluations"] += res["result"]["events"]
            log("  random %s[%d]: %d runs, %d events validated, %d violations of any TCP property" % (
                prof, ch, res["result"]["runs"], res["result"]["events"], res["result"]["nbad"]))
        if len(out.cov["samples"]) < 4:
            first = read_ndjson(sp)[0]
            out.cov["samples"].append({"kind": "random schedule on the real Tcb", "profile": prof,
                                       "params": first["params"], "steps": first["steps"][:12]})
    out.cov["distinct_nontrivial"] = max(out.cov["distinct_nontrivial"], cover)
    out.cov["rule"] = ("distinct (API call or segment flag set, connection state of the acting endpoint before the call) "
                       "pairs executed on the real Tcb, counted by the harness; evaluations = events validated by TLC")


def run_random_isn(out, tier, seed):
    """C12 on random schedules: every schedule the random driver produced (real sizes, its own pair of ISNs) is
    executed again under ISN pairs that make either side's sequence space wrap at a chosen distance into the
    connection -- in the handshake, inside the first segments, at segment boundaries, after a window -- and the
    ISN-normalised behaviour of every variant is compared with that of the pair (100, 300)."""
    rng = random.Random(seed + 12)
    offs = [0, 1, 2, 500, 1000, 1449, 1450, 1451, 2000, 2900, 3000, 5000, 21845, 43690, 65535, 65536, 70000, 100000]
    total = {"runs": 0, "isn_mismatch": 0, "events": 0}
    for prof in ("close", "data", "late", "inject"):
        d = workdir("tcp-C12")
        sp0, tp0 = os.path.join(d, "isn-" + prof + ".sched0.ndjson"), os.path.join(d, "isn-" + prof + ".trace0.ndjson")
        n = (400 if prof != "late" else 150) if tier == "thorough" else (80 if prof not in ("late",) else 30)
        hv_hangsafe(HV_CORE, ["tcb-drive", "--seed", str(seed * 977 + 5), "--profile", prof, "--steps", "110", "--out", tp0, "--sched", sp0], n)
        scheds = read_ndjson(sp0)
        for s in scheds:
            if s.get("hang"):
                continue
            variants = [[100, 300]]
            for _ in range(3):
                da, db = rng.choice(offs), rng.choice(offs)
                variants.append([(2 ** 32 - 1 - da) % 2 ** 32, (2 ** 32 - 1 - db) % 2 ** 32])
            variants.append([(2 ** 31 - 1 - rng.choice(offs)) % 2 ** 32, (2 ** 31 + rng.choice(offs)) % 2 ** 32])
            s["isns"] = variants
        sp, tp = os.path.join(d, "isn-" + prof + ".sched.ndjson"), os.path.join(d, "isn-" + prof + ".trace.ndjson")
        write_ndjson(sp, [s for s in scheds if not s.get("hang")])
        st = hv(HV_CORE, ["tcb-replay", "--in", sp, "--out", tp], timeout=1800)
        res = tlc_trace("TraceTcp.tla", os.path.join(SPEC, "TraceTcp.cfg"), tp, "ti-" + prof, timeout=1800)
        judge(out, "C12", res, sp, "tcb-replay")
        total["runs"] += st.get("runs", 0)
        total["isn_mismatch"] += st.get("isn_mismatch", 0)
        total["events"] += res["result"]["events"]
        out.cov["traces_validated_against_impl"] += res["result"]["runs"]
        out.cov["evaluations"] += res["result"]["events"]
        log("  random %s schedules x 5 ISN pairs: %d runs, %d events validated, %d ISN-dependent differences" % (
            prof, st.get("runs", 0), res["result"]["events"], st.get("isn_mismatch", 0)))
    out.cov["isn_variants_of_random_schedules"] = total


def run_findings(out, prop):
    """Re-executes the schedule of every open finding of this property (KNOWN-FINDING lines)."""
    for f in open_findings(prop):
        rp = os.path.join(ROOT, f["replay"])
        if not os.path.exists(rp) or f.get("driver") != "tcb":
            continue
        d = workdir("tcp-" + prop)
        sp, tp = os.path.join(d, f["id"] + ".sched.ndjson"), os.path.join(d, f["id"] + ".trace.ndjson")
        s = json.load(open(rp))
        write_ndjson(sp, [s.get("schedule", s)])
        hv(HV_CORE, ["tcb-replay", "--in", sp, "--out", tp])
        res = tlc_trace("TraceTcp.tla", os.path.join(SPEC, "TraceTcp.cfg"), tp, "tf-" + f["id"])
        judge(out, prop, res, sp, "tcb-replay")


def run_modcmp(out, tier, seed):
    for m in ([16, 32, 64] if tier == "thorough" else [16, 32]):
        c = os.path.join(workdir("cfg"), "modcmp%d.cfg" % m)
        open(c, "w").write("SPECIFICATION Spec\nCONSTANT M = %d\nINVARIANTS Agree StrictConsistent BoundedOk\nCHECK_DEADLOCK FALSE\n" % m)
        r = tlc_check("ModCmp.tla", c, "modcmp", workers=4, timeout=600)
        if r["violated"] or r["error"] or not r["finished"]:
            raise ToolError("ModCmp on ring %d: %s %s" % (m, r["violated"], r["error"]))
        out.cov["states"] += r["distinct"]
        out.cov["transitions"] += r["states"]
        out.cov["model_runs"].append({"config": "ModCmp ring %d (all a, all d < M/2)" % m, "distinct_states": r["distinct"], "complete": True})
        log("  model ModCmp M=%d: complete (%d ring positions x all distances)" % (m, r["distinct"]))
    n = 400000 if tier == "thorough" else 40000
    tp = os.path.join(workdir("tcp-C12"), "modcmp.ndjson")
    st = hv(HV_CORE, ["modcmp-drive", "--seed", str(seed), "--n", str(n), "--out", tp])
    res = tlc_trace("TraceModCmp.tla", os.path.join(SPEC, "TraceModCmp.cfg"), tp, "tm")
    out.cov["evaluations"] += res["result"]["events"]
    out.cov["modcmp_samples"] = st
    for b in res["result"]["bad"]:
        out.violation("circular comparison primitive disagrees with the circular order: %s" % json.dumps(b),
                      {"driver": "modcmp", "sample": b})
    log("  modcmp: %d samples of the real primitives validated, %d disagreements" % (res["result"]["events"], res["result"]["nbad"]))


def replay_file(out, prop, path):
    r = json.load(open(path))
    if r.get("driver") == "modcmp":
        raise ToolError("modcmp samples are re-checked by the normal run")
    d = workdir("tcp-" + prop)
    sp, tp = os.path.join(d, "replay.sched.ndjson"), os.path.join(d, "replay.trace.ndjson")
    write_ndjson(sp, [r.get("schedule", r)])
    hv(HV_CORE, ["tcb-replay", "--in", sp, "--out", tp])
    res = tlc_trace("TraceTcp.tla", os.path.join(SPEC, "TraceTcp.cfg"), tp, "rp-" + prop)
    judge(out, prop, res, sp, "tcb-replay")


def run(prop, tier, seed, out, replay=None):
    build_harness(("hv-core",))
    out.level = "model_checking"
    out.assumptions = [
        "TLC exploration is exhaustive only for the listed small budgets (window 3 units = 65535 bytes, MSS 1-2 units)",
        "the 2*MSL timer fires only when nothing is in flight or pending (MSL assumption)",
        "sequence numbers within 2^30 of the connection's pointers (TLC integers are 32-bit)",
        "real executions are sampled (seeded); a property-breaking path no schedule reaches is missed",
    ]
    if replay:
        replay_file(out, prop, replay)
        return
    log("[%s] model checking (M)" % prop)
    if prop == "C12":
        run_modcmp(out, tier, seed)
    run_model(out, prop, tier)
    log("[%s] TLC behaviours replayed on the real Tcb (R)" % prop)
    tot = run_replay(out, prop, tier, seed)
    log("[%s] random schedules on the real Tcb validated by TraceTcp (T)" % prop)
    run_random(out, prop, tier, seed, escalate=tot["drift_steps"] > 0)
    if prop == "C12":
        log("[C12] random schedules executed again under wrapping ISN pairs, normalised behaviour compared")
        run_random_isn(out, tier, seed)
    run_findings(out, prop)
