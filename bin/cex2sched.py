#!/usr/bin/env python3
"""Convert a TLC counterexample (-dumpTrace json) of TcpPair into a schedule for `hv-core tcb-replay`.
usage: cex2sched.py cex.json out.json [unit] [mss_units]"""
import json, sys
d = json.load(open(sys.argv[1]))
states = d['counterexample']['state']
st = states[-1][1]
unit = int(sys.argv[3]) if len(sys.argv) > 3 else 21845
mss = int(sys.argv[4]) if len(sys.argv) > 4 else 1
steps = []
for x in st['hist']:
    x = dict(x)
    if x['a'] == 'write':
        x['n'] = x['n'] * unit
    if 'seg' in x:
        sg = dict(x['seg'])
        # model units -> bytes: sequence numbers count SYN (1) + data units
        def conv(v, has_syn_before=True):
            return v
        x['seg'] = sg
        x['unit'] = unit
    steps.append(x)
listenB = st['listen']['B'] or any(s[1]['listen']['B'] for s in states)
sched = {"params": {"mtu": mss * unit + 50, "issA": 100, "issB": 300, "listenA": False, "listenB": bool(listenB)},
         "profile": "model", "unit": unit, "steps": steps}
json.dump(sched, open(sys.argv[2], 'w'))
print("violated state:", json.dumps({k: st[k] for k in ('sent', 'got', 'closed', 'listen')}))
for x in steps:
    print(json.dumps(x))
