"""C08 (codecs), C14 (malformed input), C18 (checksums): Codec.tla as the wire-format reference, evaluated by TLC on
the boundary lattice (M) and on every recorded call of the real encoders / decoders (T)."""
import json, os
from vlib import *
from checks_fn import model, chunked_validate, read_first

HV_CKSUM = os.path.join(ROOT, "harness-cksum", "target", "debug", "hv-cksum")


def build_cksum():
    rc, out = sh(["cargo", "build", "--offline"], cwd=os.path.join(ROOT, "harness-cksum"), timeout=1500, env={"CARGO_NET_OFFLINE": "true"})
    if rc != 0:
        raise ToolError("hv-cksum build failed:\n" + "\n".join(l for l in out.splitlines() if not l.startswith("warning"))[-3000:])


def codec_model(out):
    c = os.path.join(workdir("cfg"), "codec.cfg")
    open(c, "w").write("SPECIFICATION Spec\nINVARIANTS RoundTrip CksumLaw\nCHECK_DEADLOCK FALSE\n")
    r = tlc_check("Codec.tla", c, "codec", workers=8, timeout=900)
    if r["violated"] or r["error"] or not r["finished"]:
        raise ToolError("Codec.tla lattice: %s %s" % (r["violated"], r["error"]))
    out.cov["states"] += r["distinct"]
    out.cov["transitions"] += r["states"]
    out.cov["model_runs"].append({"config": "boundary lattice of IPv4/UDP/TCP/ARP/DNS headers, checksum law", "distinct_states": r["distinct"], "complete": True})
    log("  model Codec.tla: round trip on %d lattice points, RFC 1071 laws" % r["distinct"])


def drive(out, prop, binary, cmd, extra, cfg, label, chunk=20000):
    tp = os.path.join(workdir("fn-" + prop), cmd + ("-ck" if "--checked" in extra else "") + ".ndjson")
    args = [cmd] + extra + ["--out", tp]
    st = hv(binary, args)
    lines = open(tp).read().splitlines()
    k = 0
    for start in range(0, len(lines), chunk):
        part = tp + ".part%d" % k
        open(part, "w").write("\n".join(lines[start:start + chunk]) + "\n")
        res = tlc_trace("TraceCodec.tla", os.path.join(SPEC, cfg), part, "tc-" + prop)
        os.remove(part)
        k += 1
        for b in res["result"]["bad"]:
            out.violation("%s (sample %s of `%s`)" % (b["clause"], b["i"], " ".join(args)), {"driver": args, "binary": os.path.basename(binary), "cfg": cfg, "event": b})
        out.cov["evaluations"] += res["result"]["events"]
    out.cov["traces_validated_against_impl"] += 1
    out.cov["distinct_nontrivial"] += st.get("distinct", 0)
    if len(out.cov["samples"]) < 6:
        out.cov["samples"] += read_first(tp, 3)
    log("  %s: %d samples validated by TraceCodec.tla (%s)" % (label, st["events"], cfg))


def run(prop, tier, seed, out, replay=None):
    out.level = "exploration"
    out.assumptions = ["the wire formats in Codec.tla were transcribed by hand from RFC 791 / 768 / 9293 / 1071 and the Elvis DNS / DHCP layouts",
                       "exhaustive on the boundary lattice of the model only; the real codecs are sampled (boundary values + seeded random)",
                       "in the default build the checksum feature is off: reference bytes are compared with the checksum field zeroed; checksums are C18's business"]
    build_harness(("hv-core",))
    if replay:
        r = json.load(open(replay))
        b = HV_CKSUM if r.get("binary") == "hv-cksum" else HV_CORE
        if b == HV_CKSUM:
            build_cksum()
        args = r["driver"]
        hv(b, args)
        tp = args[args.index("--out") + 1]
        res = tlc_trace("TraceCodec.tla", os.path.join(SPEC, r["cfg"]), tp, "tc-" + prop)
        for x in res["result"]["bad"]:
            out.violation(x["clause"], r)
        out.cov["evaluations"] += res["result"]["events"]
        return
    big = tier == "thorough"
    if prop == "C08":
        log("[C08] Codec.tla on the boundary lattice")
        codec_model(out)
        log("[C08] real encoders / decoders / etherparse on representable values")
        drive(out, prop, HV_CORE, "codec-drive", ["--seed", str(seed), "--n", "60000" if big else "6000"], "TraceCodec.cfg", "codec samples")
        out.cov["rule"] = ("per codec: boundary values per field (0, 1, max-1, max, single bits), all 64 TCP flag sets, DF/MF, fragment offsets, seeded random values; "
                           "DNS / DHCP through decode -> re-encode of well-formed byte strings; distinct = (codec, flag / option class) classes hit")
    elif prop == "C14":
        log("[C14] arbitrary byte strings through every real decoder (never a panic; accepted iff the format accepts)")
        drive(out, prop, HV_CORE, "decode-drive", ["--seed", str(seed), "--n", "120000" if big else "12000"], "TraceCodec.cfg", "byte strings")
        out.cov["rule"] = ("valid packets, truncation at every length, one byte replaced by a boundary value (version/IHL/offset/type bytes included), random bytes, "
                           "extreme length fields, DHCP types 0 and 8..255, non-UTF-8 names; distinct = (decoder, mutation class, outcome) classes hit")
        import checks_ndl
        checks_ndl.run_c14_parts(tier, seed, out)
    elif prop == "C18":
        log("[C18] Codec.tla: RFC 1071 laws on the word lattice")
        codec_model(out)
        build_cksum()
        log("[C18] compute_checksum build: emitted checksums verify; reference packets are accepted; corruptions are rejected")
        drive(out, prop, HV_CKSUM, "codec-drive", ["--checked", "--seed", str(seed), "--n", "30000" if big else "4000"], "TraceCodecCk.cfg", "emitted / reference packets")
        drive(out, prop, HV_CKSUM, "decode-drive", ["--checked", "--seed", str(seed), "--n", "60000" if big else "8000"], "TraceCodecCk.cfg", "single / double bit corruptions")
        out.cov["rule"] = ("IPv4 / UDP / TCP with payloads empty, odd, even, 1461 and 65515 / 65507 bytes and payloads constructed so that the one's complement sum is "
                           "0xffff / the checksum 0xffff; every single-bit and sampled double-bit corruption of reference packets; distinct as for C08")
        out.assumptions.append("payloads longer than 256 bytes are folded by the harness into one's-complement block sums before TLC adds them")
