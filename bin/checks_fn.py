"""C10 (fragmentation) and C11 (reassembly): Frag.tla / Reasm.tla model-checked exhaustively on a scaled domain,
the real functions driven densely / randomly and every call validated by TraceFrag.tla / TraceReasm.tla."""
import json, os
from vlib import *


def model(out, module, cfgtext, tag, workers=8, timeout=900):
    c = os.path.join(workdir("cfg"), tag + ".cfg")
    open(c, "w").write(cfgtext)
    r = tlc_check(module, c, tag, workers=workers, timeout=timeout)
    out.cov["model_runs"].append({"config": tag, "distinct_states": r["distinct"], "states_generated": r["states"],
                                  "complete": r["finished"], "wall_s": r["wall_s"]})
    out.cov["states"] += r["distinct"]
    out.cov["transitions"] += r["states"]
    if r["violated"]:
        raise ToolError("TLC: %s violated in %s (%s): the specification itself is inconsistent" % (r["violated"], module, tag))
    if r["error"]:
        raise ToolError("TLC error in %s: %s" % (module, r["error"]))
    if not r["finished"]:
        out.cov["exhaustive"] = False
        log("  model %s: not completed in %ds (%d distinct states, no violation)" % (tag, timeout, r["distinct"]))
    else:
        log("  model %s: complete, %d distinct states, %.0fs" % (tag, r["distinct"], r["wall_s"]))
    return r


def validate(out, prop, spec, trace, driver_args, known_tags=()):
    res = tlc_trace(spec + ".tla", os.path.join(SPEC, spec + ".cfg"), trace, "tr-" + prop)
    known = {f["id"]: f for f in open_findings(prop)}
    for b in res["result"]["bad"]:
        cl = b.get("clause", "")
        if cl.startswith("["):
            tag = cl[1:cl.index("]")]
            if tag in known:
                out.known_finding(tag, known[tag]["what"])
                continue
        out.violation("%s (%s)" % (cl, json.dumps({k: v for k, v in b.items() if k != "clause"})),
                      {"driver": driver_args, "event": b, "spec": spec})
    out.cov["evaluations"] += res["result"]["events"]
    out.cov["traces_validated_against_impl"] += res["result"].get("runs", 1)
    return res


FRAG_CFG = """SPECIFICATION Spec
CONSTANTS
  MaxLen = %d
  MtuLo = 28
  MtuHi = %d
INVARIANTS PartitionInv PassThrough
CHECK_DEADLOCK FALSE
"""

REASM_CFG = """SPECIFICATION Spec
CONSTANTS
  Keys = {"a", "b"}
  DLen <- %s
  Nfbs = %s
  MaxArrivals = %d
  FixEpochs = TRUE
INVARIANTS Exact CompleteIff CovInv NoLeak NoStaleCull
CHECK_DEADLOCK FALSE
"""


def run_c10(tier, seed, out):
    log("[C10] model checking Frag.tla (all originals x MTU chains of the scaled domain)")
    model(out, "Frag.tla", FRAG_CFG % ((72, 52) if tier == "quick" else (96, 60)), "frag", timeout=1500)
    out.cov["exhaustive"] = True
    log("[C10] the real fragment() driven densely, validated by TraceFrag.tla")
    tp = os.path.join(workdir("ip-C10"), "frag.ndjson")
    args = ["frag-drive", "--seed", str(seed), "--dense-pct", "12" if tier == "quick" else "100",
            "--big", "12" if tier == "quick" else "60", "--out", tp]
    st = hv(HV_CORE, args)
    chunked_validate(out, "C10", "TraceFrag", tp, args, 12000)
    out.cov["distinct_nontrivial"] = st["distinct"]
    out.cov["rule"] = ("dense grid payload 0..600 x MTU 68..130 x DF x MF x chains of <= 4 decreasing MTUs (sampled in the quick tier) plus large "
                       "cases; distinct = distinct (payload class, (MTU-20) mod 8, chain length, DF, MF, number of pieces class)")
    ev = read_first(tp, 3)
    out.cov["samples"] += ev
    log("  %d real calls validated" % st["events"])


def read_first(path, n):
    r = []
    with open(path) as f:
        for l in f:
            r.append(json.loads(l))
            if len(r) >= n:
                break
    return r


def chunked_validate(out, prop, spec, path, args, chunk):
    """TLC reads the whole NDJSON file into memory: large traces are validated in pieces (split at run boundaries)."""
    lines = open(path).read().splitlines()
    start = 0
    k = 0
    while start < len(lines):
        end = min(len(lines), start + chunk)
        while end < len(lines) and '"ev":"reset"' not in lines[end] and spec != "TraceFrag":
            end += 1
        part = path + ".part%d" % k
        open(part, "w").write("\n".join(lines[start:end]) + "\n")
        validate(out, prop, spec, part, args)
        os.remove(part)
        start = end
        k += 1


def run_c11(tier, seed, out):
    log("[C11] model checking Reasm.tla (all arrival orders / duplicates / expiry callbacks)")
    model(out, "MC_Reasm.tla", REASM_CFG % ("L34", "{1, 2}", 5 if tier == "quick" else 6), "reasm-34", workers=12, timeout=1500)
    # pieces of 2 and 4 blocks: a datagram of 3 or 4 blocks also arrives WHOLE (RFC 791 steps 2-5 flush a reassembly in progress)
    model(out, "MC_Reasm.tla", REASM_CFG % ("L34", "{2, 4}", 5 if tier == "quick" else 7), "reasm-whole", workers=12, timeout=1500)
    if tier == "thorough":
        model(out, "MC_Reasm.tla", REASM_CFG % ("L44", "{1, 2}", 5), "reasm-44", workers=12, timeout=1500)
    log("[C11] the real Reassembly under random arrivals, validated by TraceReasm.tla")
    tp = os.path.join(workdir("ip-C11"), "reasm.ndjson")
    for dups in ("true", "false"):
        args = ["reasm-drive", "--seed", str(seed), "--runs", "250" if tier == "quick" else "3000", "--dups", dups, "--out", tp]
        st = hv(HV_CORE, args)
        chunked_validate(out, "C11", "TraceReasm", tp, args, 60000)
        out.cov["distinct_nontrivial"] += st["distinct"]
        log("  dups=%s: %d runs, %d real calls validated" % (dups, st["runs"], st["events"]))
    out.cov["rule"] = ("1-4 datagrams (keys differing in one of src/dst/protocol/id) of 1..8000 bytes cut with NFB in {1,3,6,12,18,60}, optionally "
                       "through two chains (overlapping ranges), shuffled/interleaved, pieces repeated, expiry callbacks (current and stale) fired "
                       "once each; distinct = (datagrams, arrivals class, duplicates, many timers)")
    out.cov["samples"] += read_first(tp, 6)


MSG_CFG = """SPECIFICATION Spec
CONSTANTS
  Byte = {1, 2}
  MaxChunk = 2
  MaxPool = 3
  MaxOps = %d
INVARIANTS Refines WellFormed
PROPERTY Independent
CHECK_DEADLOCK FALSE
"""
IPT_CFG = """SPECIFICATION Spec
CONSTANTS
  Wd = %d
  Vals = {1, 2}
  MaxOps = %d
INVARIANTS %s
CHECK_DEADLOCK FALSE
"""
DHCP_CFG = """SPECIFICATION Spec
CONSTANTS
  Clients = {"c1", "c2", "c3"}
  Pool = {1, 2, 3, 4, 5}
  Dups = %d
INVARIANTS Distinct InPool Learned HeldNotFree
CHECK_DEADLOCK FALSE
"""
IPG_CFG = """SPECIFICATION Spec
CONSTANTS
  Wd = 3
  MaxOps = %d
  PoolKind = "%s"
INVARIANTS InPool Disjoint FreeExact FetchedWasFree Exhaust
CHECK_DEADLOCK FALSE
"""


def drive_validate(out, prop, binary, cmd, spec, extra, tier, seed, label):
    tp = os.path.join(workdir("fn-" + prop), cmd + ".ndjson")
    args = [cmd, "--seed", str(seed)] + extra + ["--out", tp]
    st = hv(binary, args)
    chunked_validate(out, prop, spec, tp, args, 60000)
    out.cov["distinct_nontrivial"] += st.get("distinct", 0)
    if len(out.cov["samples"]) < 6:
        out.cov["samples"] += read_first(tp, 4)
    log("  %s: %s validated by %s" % (label, st.get("events", st.get("runs")), spec))
    return st


def run_c07(tier, seed, out):
    log("[C07] model checking Message.tla (chunk-window refinement of byte strings, all operation sequences)")
    model(out, "Message.tla", MSG_CFG % (4 if tier == "quick" else 5), "message", workers=12, timeout=1500)
    log("[C07] random operation histories on the real Message, every observable of every pool member validated")
    drive_validate(out, "C07", HV_CORE, "msg-drive", "TraceMessage",
                   ["--runs", "400" if tier == "quick" else "6000", "--ops", "50"], tier, seed, "histories")
    out.cov["rule"] = ("pool of <= 6 messages, chunks of 0..5 bytes, operations new/header/concatenate/clone/slice (6 range forms, all "
                       "endpoints 0..=len)/cut/remove_front; distinct = (operation, range form, start at 0, end at len, empty) classes hit")


def run_c09(tier, seed, out):
    log("[C09] model checking IpTable.tla (tables over all networks of the model width; subnet arithmetic for all pairs)")
    model(out, "IpTable.tla", IPT_CFG % (3, 3 if tier == "quick" else 4, "Functional Lpm"), "iptable", workers=12, timeout=1500)
    model(out, "IpTable.tla", IPT_CFG % (4, 0, "NetArith"), "ipnet", workers=1, timeout=600)
    log("[C09] the real IpTable / Ipv4Net on 32-bit values validated by TraceIpTable.tla")
    drive_validate(out, "C09", HV_CORE, "iptab-drive", "TraceIpTable",
                   ["--runs", "300" if tier == "quick" else "4000", "--ops", "50"], tier, seed, "tables and networks")
    out.cov["rule"] = ("tables built by add/add_direct/add_cidr/remove over networks of every mask length 0..=32 (nested, disjoint, duplicate), "
                       "lookups random + at every boundary of stored networks; distinct = lookup classes + mask lengths hit")


def run_c15(tier, seed, out):
    log("[C15] model checking IpGen.tla (all operation histories on a 3-bit address space, three pool kinds)")
    for kind in ("range", "sub", "noends"):
        model(out, "IpGen.tla", IPG_CFG % (4 if tier == "quick" else 5, kind), "ipgen-" + kind, workers=12, timeout=1500)
    log("[C15] the real IpGenerator under random histories validated by TraceIpGen.tla")
    build_harness(("hv-sim",))
    drive_validate(out, "C15", HV_SIM, "ipgen-drive", "TraceIpGen",
                   ["--runs", "600" if tier == "quick" else "8000", "--ops", "45"], tier, seed, "generator histories")
    log("[C15] model checking Dhcp.tla (concurrent clients, any message order, duplication, release)")
    model(out, "Dhcp.tla", DHCP_CFG % (1 if tier == "quick" else 2), "dhcp", workers=8, timeout=1500)
    log("[C15] a real DhcpServer and 1-12 real DhcpClients with reordered / duplicated DHCP frames, validated by TraceDhcp.tla")
    from vlib import hv_resumable
    tp = os.path.join(workdir("fn-C15"), "dhcp.ndjson")
    n = 150 if tier == "quick" else 2500
    args = ["dhcp-drive", "--seed", str(seed), "--out", tp]
    hv_resumable(HV_SIM, args, n)
    chunked_validate(out, "C15", "TraceDhcp", tp, args + ["--runs", str(n)], 60000)
    log("  %d DHCP scenarios validated" % n)
    out.cov["rule"] = ("64-address pools (ranges, subnets /26../32, subnets minus ends) at bases 0.0.0.0, 255.255.255.192, 10.0.0.0 and random; "
                       "fetch_ip/fetch_net/return/block; distinct = (pool kind, operation, outcome, fill level) classes; DHCP: 1-12 clients starting simultaneously, "
                       "frames delayed 0-9 ms (reordering) and duplicated (0/15/30 %), a third of the clients release their lease")


def run(prop, tier, seed, out, replay=None):
    build_harness(("hv-core",))
    out.level = "model_checking"
    out.assumptions = ["IHL = 5 (the code supports no options)", "MTU >= 68 in real runs; the model uses a scaled MTU range",
                       "real executions are seeded samples (dense grid for C10)"]
    if replay:
        r = json.load(open(replay))
        args = r["driver"]
        if prop == "C15":
            build_harness(("hv-sim",))
        hv(HV_SIM if prop == "C15" else HV_CORE, args)
        tp = args[args.index("--out") + 1]
        spec = {"C07": "TraceMessage", "C09": "TraceIpTable", "C10": "TraceFrag", "C11": "TraceReasm", "C15": "TraceIpGen"}[prop]
        chunked_validate(out, prop, spec, tp, args, 60000)
        return
    {"C07": run_c07, "C09": run_c09, "C10": run_c10, "C11": run_c11, "C15": run_c15}[prop](tier, seed, out)
