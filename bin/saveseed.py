#!/usr/bin/env python3
"""saveseed.py <name> <prop> <mutdir> <change> <needs> <result>  — store a confirmed seeded change under seeded/<name>/"""
import sys, os, shutil, json
name, prop, mut, change, needs, result = sys.argv[1:7]
ROOT = os.path.dirname(os.path.dirname(os.path.abspath(__file__)))
d = os.path.join(ROOT, "seeded", name)
os.makedirs(d, exist_ok=True)
for f in ("patch.diff", "demo.diff", "README.md"):
    src = os.path.join(mut, "out", f)
    if os.path.exists(src):
        shutil.copy(src, os.path.join(d, f))
confirm = ""
cl = "/tmp/confirm-%s.log" % os.path.basename(mut).replace("mut-", "")
if os.path.exists(cl):
    confirm = open(cl).read()
json.dump({"property": prop, "change": change, "needs": needs, "result": result,
           "what_i_ran": {
               "confirmation (scratch worktree, removed afterwards)": "git apply patch.diff; cargo nextest run --workspace --no-fail-fast --test-threads 8 --retries 2 --offline (existing suite, change only); git apply demo.diff; demonstration test (must fail); git apply -R patch.diff; demonstration test (must pass)",
               "confirmation_log": confirm,
               "check": "git -C /repo apply seeded/%s/patch.diff; bin/check %s --tier quick; git -C /repo checkout -- ." % (name, prop)}},
          open(os.path.join(d, "meta.json"), "w"), indent=1)
print("saved", d)
