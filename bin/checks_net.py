"""Full-stack properties on real machines / networks under virtual time (tokio paused clock):
C05 link (Link.tla / TraceLink.tla), and further ones registered below."""
import json, os
from vlib import *
from checks_fn import model, chunked_validate, drive_validate, read_first

LINK_CFGS = [
    ("link-a", "SrcA", "DstA", "LenA", 1000, 2),
    ("link-b", "SrcA", "DstB", "LenB", 1000, 0),
    ("link-unlimited", "SrcA", "DstB", "LenB", 0, 3),
]
LINK_CFG = """SPECIFICATION Spec
CONSTANTS
  Macs = {"a", "b", "c"}
  Frames <- F3
  Src <- %s
  Dst <- %s
  Len <- %s
  Mtu = 4
  Lat = %d
  Bps = %d
  Horizon = %d
INVARIANTS Unicast Broadcast Nobody MtuRule RefusedSilent NotEarly NoOverlap OnePermit Done
CHECK_DEADLOCK FALSE
"""


def run_c05(tier, seed, out):
    log("[C05] model checking Link.tla (all interleavings of concurrent sends, explicit time)")
    for name, src, dst, ln, bps, lat in LINK_CFGS:
        model(out, "MC_Link.tla", LINK_CFG % (src, dst, ln, lat, bps, 4 if tier == "quick" else 6), name, workers=8, timeout=900)
    log("[C05] real Networks / Pci taps under virtual time, validated by TraceLink.tla")
    drive_validate(out, "C05", HV_CORE, "link-drive", "TraceLink", ["--runs", "600" if tier == "quick" else "30000"], tier, seed,
                   "link scenarios")
    out.cov["rule"] = ("1-2 networks (MTU 60/100/1500, constant/variable latency, unlimited/constant/variable throughput), 2-5 machines with 1-2 taps "
                       "(also two taps of one machine on one network), 1-7 frames to a tap / unknown address / broadcast with lengths mtu-1, mtu, mtu+1, "
                       "0, 1, 20 sent at 0 / 0.25 / 1 / 5 ms; distinct = not measured separately (counted as runs)")
    out.cov["distinct_nontrivial"] = max(out.cov["distinct_nontrivial"], out.cov["traces_validated_against_impl"])
    out.assumptions += ["timing clauses are exact under the paused current_thread clock only",
                        "for variable latency / throughput only the lower bounds are asserted"]


DEMUX_CFG = """SPECIFICATION Spec
CONSTANTS
  Apps = {"x", "y", "z"}
  Addrs = {"A1", "A2", "ANY", "BCAST"}
  Ports = {1, 2}
  MaxBinds = %d
INVARIANTS Isolation NeverWrongPort BindOnce
CHECK_DEADLOCK FALSE
"""


def run_c04(tier, seed, out):
    log("[C04] model checking Demux.tla (every bind history; two-stage lookup of the code = the property's endpoint rule)")
    model(out, "Demux.tla", DEMUX_CFG % (4 if tier == "quick" else 5), "demux", workers=8, timeout=900)
    log("[C04] real Udp/Ipv4/(Arp)/Pci machines with up to 3 applications each, validated by TraceDemux.tla")
    drive_validate(out, "C04", HV_CORE, "udp-drive", "TraceDemux", ["--runs", "800" if tier == "quick" else "40000"], tier, seed,
                   "datagram scenarios")
    out.cov["rule"] = ("2-4 machines x 3 applications, 0-4 binds per machine over {own address 1, own address 2, 0.0.0.0, 255.255.255.255} x 3 ports "
                       "(duplicates included), 1-6 datagrams to bound / unbound / foreign / nobody's endpoints, payload 0, 1, 20, max-1, max, max+1, "
                       "with and without ARP; distinct counted as runs")
    out.cov["distinct_nontrivial"] = max(out.cov["distinct_nontrivial"], out.cov["traces_validated_against_impl"])


ARP_CFG = """SPECIFICATION Spec
CONSTANTS
  Machines = {"m1", "m2", "m3"}
  Ips = {"i1", "i2", "i3", "ix"}
  Owner <- OwnerA
  Subnet <- %s
  Tries = 3
  Drops = %d
  Calls <- %s
INVARIANTS Correct TableCorrect Unclaimed Succeeds Bounded NoHang
CHECK_DEADLOCK FALSE
"""


def run_c06(tier, seed, out):
    log("[C06] model checking Arp.tla (retry loop, cache, learning, gateway substitution, frame loss)")
    confs = [("NoSub", 2, "CallsA"), ("SubGw", 2, "CallsB"), ("NoSub", 3, "CallsC")]
    if tier == "thorough":
        confs += [("SubGw", 3, "CallsA"), ("NoSub", 4, "CallsB")]
    for sub, drops, calls in confs:
        model(out, "MC_Arp.tla", ARP_CFG % (sub, drops, calls), "arp-%s-%d-%s" % (sub, drops, calls), workers=8, timeout=900)
    log("[C06] real Arp instances with a seeded loss plan over ARP frames, validated by TraceArp.tla")
    drive_validate(out, "C06", HV_CORE, "arp-drive", "TraceArp", ["--runs", "800" if tier == "quick" else "40000"], tier, seed,
                   "resolution scenarios")
    out.cov["rule"] = ("2-6 machines claiming 0-2 addresses, byte-aligned subnet masks /0../32 with claimed and unclaimed gateways, 1-6 resolve calls "
                       "(concurrent, repeated, own address, unclaimed address) at 0 / 0.15 / 0.5 / 1.9 / 2.1 s, latency 0/1/5 ms, ARP frame loss 0/30/60/85 % or an exact plan (only the k-th request of a resolver passes, k = 1, 2, 9, 10, none); "
                       "distinct counted as runs")
    out.cov["distinct_nontrivial"] = max(out.cov["distinct_nontrivial"], out.cov["traces_validated_against_impl"])


LIFE_CFG = """SPECIFICATION Spec
CONSTANTS
  Procs <- P4
  Behaviour <- %s
  Init0 <- IniA
  ReqAt <- %s
  T = 3
  Cap = 2
  FirstWins = TRUE
INVARIANTS Barrier Status Bound NoHangForever
CHECK_DEADLOCK FALSE
"""


def drive_validate_resumable(out, prop, binary, cmd, spec, runs, seed, label):
    tp = os.path.join(workdir("fn-" + prop), cmd + ".ndjson")
    args = [cmd, "--seed", str(seed), "--out", tp]
    st = hv_resumable(binary, args, runs)
    chunked_validate(out, prop, spec, tp, args + ["--runs", str(runs)], 60000)
    if len(out.cov["samples"]) < 6:
        out.cov["samples"] += read_first(tp, 5)
    log("  %s: %d runs (%d process restarts after panics) validated by %s" % (label, runs, st["restarts"], spec))
    return st


def run_c13(tier, seed, out):
    log("[C13] model checking Lifecycle.tla (barrier, competing shutdown requests, bounded channel, timeouts)")
    for beh, req in (("BehA", "ReqA"), ("BehB", "ReqA"), ("BehB", "ReqB"), ("BehC", "ReqA"), ("BehD", "ReqA"), ("BehE", "ReqB")):
        model(out, "MC_Lifecycle.tla", LIFE_CFG % (beh, req), "life-%s-%s" % (beh, req), workers=4, timeout=600)
    log("[C13] real run_internet_with_timeout runs (scripted + built-in protocols) validated by TraceLifecycle.tla")
    build_harness(("hv-sim",))
    drive_validate_resumable(out, "C13", HV_SIM, "life-drive", "TraceLifecycle", 800 if tier == "quick" else 30000, seed, "lifecycle scenarios")
    out.cov["rule"] = ("0-4 machines with 0-3 scripted applications (initialisation 0 / 1 ms / 20 ms / 1 s / 2 s; afterwards nothing, frames, a shutdown request, "
                       "a burst of 2/17/20 requests with distinct statuses, or hanging forever; some ask for a shutdown during their initialisation, some never finish it) mixed with Pci, Udp+Ipv4(+Arp) and SendMessage / Capture / Forward; "
                       "timeouts 10 ms, 50 ms, 1 s, 3 s; distinct counted as runs")
    out.cov["distinct_nontrivial"] = max(out.cov["distinct_nontrivial"], out.cov["traces_validated_against_impl"])
    out.assumptions += ["the arrival of built-in protocols at the barrier is not observable: the barrier clause is judged against the scripted applications",
                        "the T + 1 s bound is exact under the paused clock only"]


ROUTER_CFG = """SPECIFICATION Spec
CONSTANTS
  Subnets = {0, 1, 2}
  Routers = {"a", "b"}
  Attach <- AttLine
  Route <- %s
  Gateway <- GwLine
  HostOn <- %s
  Ttl0 = %d
  Sends <- SendsA
INVARIANTS TtlBound HopDecrement NoMultiply OnlyDst Silence
CHECK_DEADLOCK FALSE
"""


def run_c16(tier, seed, out):
    log("[C16] model checking Router.tla (correct, missing and looping routes; all interleavings of forwarding)")
    for rt, hosts in (("RouteOk", "AllHosts"), ("RouteLoop", "AllHosts"), ("RouteMissing", "AllHosts"), ("RouteOk", "NoHost2")):
        model(out, "MC_Router.tla", ROUTER_CFG % (rt, hosts, 4 if tier == "quick" else 5), "router-%s-%s" % (rt, hosts), workers=8, timeout=900)
    log("[C16] real ArpRouter topologies (line, star, ring) validated by TraceRouter.tla")
    build_harness(("hv-sim",))
    drive_validate_resumable(out, "C16", HV_SIM, "router-drive", "TraceRouter", 500 if tier == "quick" else 25000, seed, "routing scenarios")
    out.cov["rule"] = ("lines of 1-3 routers, stars over 2-4 subnets, rings of 3 routers; 1-2 hosts per subnet; routes: shortest path, one entry missing, one entry "
                       "redirected, or chasing routes for an unknown subnet (loops of 2 and 3 routers); 1-5 datagrams to existing hosts, nobody's address, a subnet "
                       "that does not exist; every IPv4 frame on every network recorded with its TTL; distinct counted as runs")
    out.cov["distinct_nontrivial"] = max(out.cov["distinct_nontrivial"], out.cov["traces_validated_against_impl"])


DNS_CFG = """SPECIFICATION Spec
CONSTANTS
  Clients = {"c1", "c2"}
  Names = {"x", "y"}
  Addr <- AddrA
  MaxLookups = %d
INVARIANTS Right Echo CacheRight CachedSilent NoLoss
CHECK_DEADLOCK FALSE
"""


def run_c20(tier, seed, out):
    log("[C20] model checking Dns.tla (lookups, cache, queries and replies in any delivery order)")
    model(out, "MC_Dns.tla", DNS_CFG % (4 if tier == "quick" else 5), "dns", workers=8, timeout=900)
    log("[C20] real DnsServer / DnsClients with delayed frames validated by TraceDns.tla")
    drive_validate_resumable(out, "C20", HV_CORE, "dns-drive", "TraceDns", 300 if tier == "quick" else 5000, seed, "lookup scenarios")
    tp = os.path.join(workdir("fn-C20"), "dns-long.ndjson")
    args = ["dns-drive", "--seed", str(seed + 1), "--long-names", "--out", tp]
    n = 80 if tier == "quick" else 1000
    st = hv_resumable(HV_CORE, args, n)
    chunked_validate(out, "C20", "TraceDns", tp, args + ["--runs", str(n)], 60000)
    out.cov["rule"] = ("1-3 names of printable characters other than the delimiter (lengths 1..24, and 25..40 in the second batch), random addresses, 1-3 clients "
                       "with 1-3 lookups each (concurrent, repeated, at 0 / 2 ms / 0.4 s / 0.9 s), every frame delayed by 0 / 1 / 5 / 20 ms; distinct counted as runs")
    out.cov["distinct_nontrivial"] = max(out.cov["distinct_nontrivial"], out.cov["traces_validated_against_impl"])


SOCK_CFG = """SPECIFICATION Spec
CONSTANTS
  Writes <- %s
  ReadSizes = {1, 2, 4}
  QCap = 8
  TaskPerWrite = FALSE
  BudgetBug = FALSE
  AcceptMode = "%s"
INVARIANTS StreamInv RecvBound NoDrop Complete
CHECK_DEADLOCK FALSE
"""


def run_c02(tier, seed, out):
    log("[C02] model checking SockPipe.tla (write hand-off, re-chunking, accept backlog, recv(n) with stored remainder)")
    for w in ("W3", "W2"):
        # accept() as one step (current_thread runtime) and as two critical sections with deliveries in between (multi_thread)
        for mode in ("atomic", "guarded"):
            model(out, "MC_SockPipe.tla", SOCK_CFG % (w, mode), "sockpipe-%s-%s" % (w, mode), workers=8, timeout=600)
    log("[C02] complete stack between socket applications, current_thread runtime with virtual time")
    drive_validate_resumable(out, "C02", HV_CORE, "sock-drive", "TraceSock", 300 if tier == "quick" else 4000, seed, "socket scenarios (current_thread)")
    log("[C02] the same scenarios on multi_thread runtimes (real time)")
    for w in (2, 4, 8, 16):
        n = 4 if tier == "quick" else 40
        tp = os.path.join(workdir("fn-C02"), "sock-mt%d.ndjson" % w)
        args = ["sock-drive", "--seed", str(seed + w), "--workers", str(w), "--out", tp]
        hv_resumable(HV_CORE, args, n, timeout=1800)
        chunked_validate(out, "C02", "TraceSock", tp, args + ["--runs", str(n)], 60000)
        log("  multi_thread with %d workers: %d runs validated" % (w, n))
    log("[C02] accept() against deliveries made from another thread (SockPipe AcceptTake / AcceptDrain on the real SocketAPI)")
    for w in (2, 8):
        tp = os.path.join(workdir("fn-C02"), "sockrace-mt%d.ndjson" % w)
        args = ["sockrace-drive", "--workers", str(w), "--conns", "1500" if tier == "quick" else "8000", "--msgs", "250", "--out", tp]
        hv_resumable(HV_CORE, args, 2, timeout=900)
        chunked_validate(out, "C02", "TraceSock", tp, args + ["--runs", "2"], 60000)
        n = sum(1 for l in open(tp) if '"ev":"rconn"' in l)
        log("  %d workers: %d accepts with a concurrent producer judged" % (w, n))
    # known finding K1: the bounded socket queue drops stream bytes when the reader is late
    tp = os.path.join(workdir("fn-C02"), "sock-backlog.ndjson")
    args = ["sock-drive", "--seed", str(seed), "--backlog", "--out", tp]
    hv_resumable(HV_CORE, args, 1)
    chunked_validate(out, "C02", "TraceSock", tp, args + ["--runs", "1"], 60000)
    out.cov["rule"] = ("stream (3/4) or datagram sockets, 1-5 clients against one listener, 1-40 writes of 1 B - 20 kB (back-to-back or spaced), recv sizes 1..100000, "
                       "MTU 100-1500, jitter, loss 0/10/25 % with at most 3 consecutive losses per sender, duplicates; current_thread (paused clock) and multi_thread with "
                       "2/4/8/16 workers; distinct counted as runs")
    out.cov["distinct_nontrivial"] = max(out.cov["distinct_nontrivial"], out.cov["traces_validated_against_impl"])
    out.assumptions += ["multi_thread runs are few, in real time, and not replayable exactly (their verdict rests on order-independent invariants)",
                        "ISNs of the full stack come from rand::random() and are not fixed by the seed"]


def run_c14_frames(tier, seed, out):
    """C14, third clause: socket scenarios (stream and datagram) with an attacker machine that injects frames whose
    PCI / IPv4 / UDP / TCP / ARP headers fail to decode between the legitimate traffic. Judged by TraceSock.tla: the
    streams stay intact and complete, datagram sockets only see their peer's datagrams, nothing panics, the run ends
    normally. (Any violation here is a violation of C14: the undecodable frames are the only difference to C02.)"""
    build_harness(("hv-core",))
    n = 200 if tier == "quick" else 3000
    tp = os.path.join(workdir("fn-C14"), "sock-attack.ndjson")
    args = ["sock-drive", "--seed", str(seed), "--attack", "--out", tp]
    st = hv_resumable(HV_CORE, args, n)
    chunked_validate(out, "C14", "TraceSock", tp, args + ["--runs", str(n)], 60000)
    log("  %d socket scenarios with injected undecodable frames validated (%d restarts after panics)" % (n, st["restarts"]))
    # the same for the DNS layer: datagrams for the server's port (and forged "replies" to a client's port) whose
    # payload is not a DNS message, between the lookups of real clients; judged by TraceDns.tla
    n2 = 60 if tier == "quick" else 1500
    tp2 = os.path.join(workdir("fn-C14"), "dns-attack.ndjson")
    args2 = ["dns-drive", "--seed", str(seed), "--attack", "--out", tp2]
    st2 = hv_resumable(HV_CORE, args2, n2)
    chunked_validate(out, "C14", "TraceDns", tp2, args2 + ["--runs", str(n2)], 60000)
    log("  %d DNS scenarios with undecodable datagrams validated (%d restarts after panics)" % (n2, st2["restarts"]))


RUNNERS = {"C02": run_c02, "C13": run_c13, "C16": run_c16, "C20": run_c20, "C04": run_c04, "C05": run_c05, "C06": run_c06}
SPECS = {"C02": "TraceSock", "C13": "TraceLifecycle", "C16": "TraceRouter", "C20": "TraceDns", "C04": "TraceDemux", "C05": "TraceLink", "C06": "TraceArp"}


def run(prop, tier, seed, out, replay=None):
    build_harness(("hv-core",))
    out.level = "model_checking"
    out.assumptions = ["real executions are seeded samples of the scenario space"]
    if replay:
        r = json.load(open(replay))
        args = r["driver"]
        if prop in ("C02", "C13", "C16", "C20"):
            build_harness(("hv-sim",))
            a2 = [x for x in args]
            runs = int(a2[a2.index("--runs") + 1])
            del a2[a2.index("--runs"):a2.index("--runs") + 2]
            hv_resumable(HV_CORE if prop in ("C20", "C02") else HV_SIM, a2, runs)
        else:
            hv(HV_CORE, args)
        tp = args[args.index("--out") + 1]
        chunked_validate(out, prop, r.get("spec", SPECS[prop]), tp, args, 60000)
        return
    RUNNERS[prop](tier, seed, out)
