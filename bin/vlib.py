"""Shared machinery of /verif/bin/check: building the harness, running TLC (model checking, simulation,
trace validation), known findings, evidence files, verdicts.

Exit codes of a check: 0 = property held on everything explored (known findings are listed),
1 = violation (a line `VIOLATION property=<id> replay=<path>` is printed), 2 = tool error / timeout."""
import json, os, re, subprocess, sys, time, hashlib

ROOT = os.path.dirname(os.path.dirname(os.path.abspath(__file__)))
SPEC = os.path.join(ROOT, "spec")
WORK = os.path.join(ROOT, "work")
HARNESS = os.path.join(ROOT, "harness")
HV_CORE = os.path.join(HARNESS, "target", "debug", "hv-core")
HV_SIM = os.path.join(HARNESS, "target", "debug", "hv-sim")
CP = "/opt/veriftools/tla/tla2tools.jar:/opt/veriftools/tla/CommunityModules-deps.jar"


class ToolError(Exception):
    pass


class CodeHang(Exception):
    """A synchronous driver was stuck inside a call into the code under test (its watchdog reported `code_hang`):
    the call never returned.  bin/check reports this as a violation of the property being checked."""


def log(*a):
    print(*a, flush=True)


def sh(cmd, timeout=None, cwd=None, env=None, check=False):
    e = dict(os.environ)
    if env:
        e.update(env)
    try:
        r = subprocess.run(cmd, cwd=cwd, env=e, timeout=timeout, stdout=subprocess.PIPE, stderr=subprocess.STDOUT,
                           text=True, errors="replace")
    except subprocess.TimeoutExpired as ex:
        out = ex.stdout if isinstance(ex.stdout, str) else (ex.stdout or b"").decode(errors="replace")
        return 124, out
    if check and r.returncode != 0:
        raise ToolError("command failed (%d): %s\n%s" % (r.returncode, " ".join(cmd), r.stdout[-3000:]))
    return r.returncode, r.stdout


def build_harness(which=("hv-core",)):
    """Incremental build of the harness against /repo's current working tree (hooks on)."""
    t0 = time.time()
    args = ["cargo", "build", "--offline"]
    for w in which:
        args += ["-p", w]
    rc, out = sh(args, cwd=HARNESS, timeout=1500,
                 env={"CARGO_NET_OFFLINE": "true", "RUSTFLAGS": os.environ.get("RUSTFLAGS", "")})
    if rc != 0:
        tail = "\n".join(l for l in out.splitlines() if not l.startswith("warning"))[-4000:]
        raise ToolError("harness build failed:\n" + tail)
    return time.time() - t0


def workdir(name):
    d = os.path.join(WORK, name)
    os.makedirs(d, exist_ok=True)
    return d


# ----------------------------------------------------------------------------------------- TLC

def java_tlc(args, timeout, env=None, jopts=None, xmx="6g"):
    cmd = ["java", "-XX:+UseParallelGC", "-Xmx" + xmx] + (jopts or []) + ["-cp", CP, "tlc2.TLC"] + args
    return sh(cmd, cwd=SPEC, timeout=timeout, env=env)


def tlc_check(module, cfg, tag, workers=8, timeout=600, dump=None, extra=None, xmx="8g"):
    """Exhaustive model checking. Returns dict(ok, states, distinct, depth, violated, out, finished)."""
    meta = workdir("tlc-" + tag)
    args = ["-workers", str(workers), "-metadir", meta, "-cleanup", "-noGenerateSpecTE", "-config", cfg]
    if os.environ.get("VERIF_COVERAGE"):
        # vacuity guard (slower): per-action counts of distinct / generated states go to the evidence
        args += ["-coverage", "1"]
    if dump:
        args += ["-dumpTrace", "json", dump]
    args += (extra or []) + [module]
    t0 = time.time()
    rc, out = java_tlc(args, timeout, xmx=xmx)
    res = parse_tlc(out)
    res["wall_s"] = round(time.time() - t0, 1)
    res["timeout"] = rc == 124
    res["rc"] = rc
    sh(["rm", "-rf", meta])
    if os.environ.get("VERIF_COVERAGE"):
        acts = {}
        for m in re.finditer(r"^<(\w+) line \d+, col \d+ to line \d+, col \d+ of module (\w+)[^>]*>: (\d+):(\d+)", res["out"], re.M):
            k = m.group(2) + "." + m.group(1)
            acts[k] = [int(m.group(3)), int(m.group(4))]      # the last report wins (final totals)
        never = sorted(k for k, v in acts.items() if v[1] == 0)
        ACTION_COVERAGE.append({"module": module, "config": os.path.basename(cfg), "actions": acts, "never_taken": never})
        if never:
            log("  coverage %s: actions never taken in this configuration: %s" % (os.path.basename(cfg), ", ".join(never)))
    return res


ACTION_COVERAGE = []


def parse_tlc(out):
    res = {"out": out, "violated": None, "states": 0, "distinct": 0, "depth": 0, "finished": False, "error": None}
    m = re.findall(r"(\d[\d,]*) states generated, (\d[\d,]*) distinct states found", out)
    if m:
        res["states"] = int(m[-1][0].replace(",", ""))
        res["distinct"] = int(m[-1][1].replace(",", ""))
    m = re.search(r"depth of the complete state graph search is (\d+)", out)
    if m:
        res["depth"] = int(m.group(1))
    res["finished"] = "Model checking completed. No error has been found." in out
    m = re.search(r"Error: Invariant (\w+) is violated", out)
    if m:
        res["violated"] = m.group(1)
    m = re.search(r"Error: Action property (\w+) is violated", out)
    if m:
        res["violated"] = m.group(1)
    m = re.search(r"Error: Temporal property (\w+) was violated", out)
    if m:
        res["violated"] = m.group(1)
    if "Temporal properties were violated" in out:
        res["violated"] = res["violated"] or "temporal"
    if res["violated"] is None and not res["finished"]:
        errs = [l for l in out.splitlines() if l.startswith("Error:")]
        if errs:
            res["error"] = "\n".join(errs[:6])
    return res


def tlc_simulate(module, cfg, tag, num, depth, seed, timeout=300, marker="SCHED"):
    """Random simulation; returns the JSON payloads printed by the spec (one per behaviour)."""
    meta = workdir("tlc-" + tag)
    args = ["-workers", "1", "-simulate", "num=%d" % num, "-depth", str(depth), "-seed", str(seed),
            "-metadir", meta, "-cleanup", "-noGenerateSpecTE", "-config", cfg, module]
    rc, out = java_tlc(args, timeout, xmx="4g")
    sh(["rm", "-rf", meta])
    pay = []
    for l in out.splitlines():
        if l.startswith('<<"%s", ' % marker):
            m = re.match(r'<<"%s", "(.*)">>$' % marker, l)
            if m:
                pay.append(json.loads(json.loads('"' + m.group(1) + '"')))
    res = parse_tlc(out)
    res["payloads"] = pay
    res["rc"] = rc
    return res


def tlc_trace(module, cfg, tracefile, tag, timeout=900, env=None):
    """Trace validation: TLC consumes the NDJSON file (IOEnv.TRACE). The trace spec prints
    TRACE-RESULT (violations found by the property-level spec) and TRACE-SUMMARY (lines consumed)."""
    meta = workdir("tlc-" + tag)
    e = {"TRACE": tracefile}
    if env:
        e.update(env)
    args = ["-workers", "1", "-metadir", meta, "-cleanup", "-noGenerateSpecTE", "-config", cfg, module]
    t0 = time.time()
    rc, out = java_tlc(args, timeout, env=e, jopts=["-Xss1g", "-Dtlc2.tool.queue.IStateQueue=StateDeque"], xmx="10g")
    sh(["rm", "-rf", meta])
    res = {"rc": rc, "out": out, "result": None, "summary": None, "wall_s": round(time.time() - t0, 1)}
    for key in ("TRACE-RESULT", "TRACE-SUMMARY"):
        m = re.search(r'<<"%s", "(.*)">>' % key, out)
        if m:
            res["result" if key == "TRACE-RESULT" else "summary"] = json.loads(json.loads('"' + m.group(1) + '"'))
    if res["result"] is None or res["summary"] is None or "No error has been found" not in out:
        errs = [l for l in out.splitlines() if l.startswith("Error")]
        raise ToolError("trace validation did not complete (%s):\n%s\n%s" % (module, "\n".join(errs[:8]), out[-1500:]))
    if res["summary"]["consumed"] != res["summary"]["events"]:
        raise ToolError("trace not fully consumed: %s" % res["summary"])
    return res


# ----------------------------------------------------------------------------------------- harness

def hv(binary, args, timeout=900):
    rc, out = sh([binary] + args, cwd=ROOT, timeout=timeout)
    if rc == 4:
        js = [l for l in out.splitlines() if l.startswith("{") and "code_hang" in l]
        if js:
            h = json.loads(js[-1])
            raise CodeHang("the code under test did not return from a call for %d s (driver %s; last event written: %s)" % (
                h.get("secs", 0), " ".join(args), h.get("last_event", "")))
    if rc != 0:
        raise ToolError("harness %s failed (%d):\n%s" % (" ".join(args[:2]), rc, out[-3000:]))
    last = [l for l in out.splitlines() if l.startswith("{")]
    return json.loads(last[-1]) if last else {}


def hv_hangsafe(binary, args, runs, timeout=1800):
    """tcb-drive: a call into the Tcb that never returns makes the driver's watchdog record the run (a `panic`
    event saying "hang") and exit with status 3; the driver is restarted behind that run."""
    start, totals = 0, {"events": 0, "panics": 0, "cover": 0, "hangs": 0}
    while True:
        rc, out = sh([binary] + args + ["--runs", str(runs), "--from", str(start)], cwd=ROOT, timeout=timeout)
        last = [l for l in out.splitlines() if l.startswith("{")]
        st = json.loads(last[-1]) if last else {}
        if rc == 0:
            for k in ("events", "panics"):
                totals[k] += st.get(k, 0)
            totals["cover"] = max(totals["cover"], st.get("cover", 0))
            totals["runs"] = runs
            return totals
        if rc == 3 and "hang_run" in st and st["hang_run"] >= start and totals["hangs"] <= runs:
            totals["hangs"] += 1
            start = st["hang_run"] + 1
            # three recorded hangs are evidence enough (each costs the watchdog's patience)
            if start >= runs or totals["hangs"] >= 3:
                totals["runs"] = runs
                return totals
            continue
        raise ToolError("harness %s failed (%d):\n%s" % (" ".join(args[:2]), rc, out[-3000:]))


def hv_resumable(binary, args, runs, timeout=900, max_restarts=None):
    """Full-stack drivers die with the process when the code under test panics (run_internet installs a hook
    that exits): the panic is recorded in the trace, and the driver is restarted after the crashed run."""
    out_path = args[args.index("--out") + 1]
    start, restarts, hangs = 0, 0, 0
    while True:
        rc, out = sh([binary] + args + ["--runs", str(runs), "--from", str(start)], cwd=ROOT, timeout=timeout)
        if rc == 0:
            return {"runs": runs, "restarts": restarts}
        if rc == 3:
            # the driver's watchdog recorded a scenario that never ended; three of them are evidence enough
            hangs += 1
            if hangs >= 3:
                return {"runs": start, "restarts": restarts, "hangs": hangs}
        if rc == 124:
            raise ToolError("harness %s timed out" % args[0])
        last = -1
        try:
            with open(out_path, "rb") as f:
                f.seek(0, 2)
                size = f.tell()
                f.seek(max(0, size - 20000))
                tail = f.read().decode(errors="replace").splitlines()
            for ln in reversed(tail):
                if ln.startswith("{") and '"run"' in ln:
                    last = json.loads(ln)["run"]
                    break
        except Exception:
            pass
        if last < start or restarts > runs + 5:
            raise ToolError("harness %s failed (%d) without progress:\n%s" % (args[0], rc, out[-2000:]))
        start = last + 1
        restarts += 1
        if start >= runs:
            return {"runs": runs, "restarts": restarts}
        # a driver that has been restarted a hundred times and crashed in (nearly) every scenario so far has shown what
        # there is to see; the scenarios executed are validated, the rest is skipped
        if restarts >= 100 and restarts * 10 >= start * 9:
            return {"runs": start, "restarts": restarts, "cut_short": True}
        # (a caller whose scenarios never crash on the unchanged tree may say how many crashes are evidence enough: every
        # one of them is in the trace and will be judged)
        if max_restarts is not None and restarts >= max_restarts:
            return {"runs": start, "restarts": restarts, "cut_short": True}


def read_ndjson(path):
    with open(path) as f:
        return [json.loads(l) for l in f if l.strip()]


def write_ndjson(path, items):
    with open(path, "w") as f:
        for it in items:
            f.write(json.dumps(it) + "\n")


# ----------------------------------------------------------------------------------------- findings

def load_findings():
    p = os.path.join(ROOT, "known_findings.json")
    if not os.path.exists(p):
        return []
    return json.load(open(p))


def open_findings(prop):
    return [f for f in load_findings() if f.get("status") == "open" and prop in f.get("properties", [f.get("property")])]


# ----------------------------------------------------------------------------------------- verdict / evidence

class Outcome:
    def __init__(self, prop, tier, seed):
        self.prop, self.tier, self.seed = prop, tier, seed
        self.t0 = time.time()
        self.violations = []       # dicts: {what, replay}
        self.known = []            # (finding id, what)
        self.cov = {"states": 0, "transitions": 0, "traces_validated_against_impl": 0, "samples": [],
                    "evaluations": 0, "distinct_nontrivial": 0, "rule": "", "exhaustive": False,
                    "model_runs": [], "drift_events": 0, "model_bound": True}
        self.assumptions = []
        self.level = "model_checking"

    def violation(self, what, replay_obj):
        d = workdir("violations")
        h = hashlib.sha1(json.dumps(replay_obj, sort_keys=True).encode()).hexdigest()[:10]
        path = os.path.join(d, "%s-%s.json" % (self.prop, h))
        replay_obj = dict(replay_obj)
        replay_obj["property"] = self.prop
        replay_obj["observed"] = what
        json.dump(replay_obj, open(path, "w"), indent=1)
        self.violations.append({"what": what, "replay": path})

    def known_finding(self, fid, what):
        if (fid, what) not in self.known:
            self.known.append((fid, what))

    def finish(self):
        ev = {"property_id": self.prop, "tier": self.tier, "seed": self.seed, "level": self.level,
              "coverage": self.cov, "assumptions": self.assumptions,
              "wall_s": round(time.time() - self.t0, 1), "violations": len(self.violations)}
        self.cov["known_findings_confirmed"] = [k[0] for k in self.known]
        if ACTION_COVERAGE:
            self.cov["action_coverage"] = ACTION_COVERAGE
        if not self.cov["samples"]:
            self.cov["samples"] = ["(none)"]
        evdir = os.path.join(WORK, "evidence-extra") if getattr(self, "extra", False) else os.path.join(ROOT, "evidence")
        os.makedirs(evdir, exist_ok=True)
        json.dump(ev, open(os.path.join(evdir, self.prop + ".json"), "w"), indent=1)
        for fid, what in self.known:
            log("KNOWN-FINDING: property=%s %s: %s" % (self.prop, fid, what))
        for v in self.violations[:20]:
            log("VIOLATION property=%s replay=%s" % (self.prop, v["replay"]))
            log("   " + v["what"])
        log("RESULT property=%s tier=%s violations=%d known=%d wall=%.0fs" % (
            self.prop, self.tier, len(self.violations), len(self.known), time.time() - self.t0))
        return 1 if self.violations else 0
