#!/usr/bin/env python3
"""Regenerates /verif/MANIFEST.json from the table below (kept next to the checks so it stays current)."""
import json, os, subprocess
ROOT = os.path.dirname(os.path.dirname(os.path.abspath(__file__)))

def hook_commits():
    out = subprocess.run(["git", "-C", "/repo", "log", "--format=%H %s"], capture_output=True, text=True).stdout
    return [l.split()[0] for l in out.splitlines() if " verif hooks:" in l][::-1]

TCP_NOTE = ("Trusted base: TLC, the hand-written Tcb/TcpPair/TraceTcp specifications, the harness projection (numbers relative to "
            "the ISNs, payload position coding). Exhaustive only within the stated small budgets; real executions are seeded samples; "
            "the I-spec is bound to the code by lockstep replay (drift is reported, never alarmed).")

CHECKS = {
 "C01": dict(level="model_checking", ref="DESIGN.md 7 C01",
   text="TLC explores every interleaving of writes, reads, pumps, timer expirations and per-segment deliver/drop/duplicate choices of two "
        "Elvis TCBs within small budgets (prefix, wire, window, quiescence invariants); TLC-simulated behaviours are replayed in lockstep on "
        "two real Tcbs; seeded random schedules with real sizes (1 B - 300 kB, MTU 100-65535, ISNs around the wrap points) are recorded and "
        "every event is validated by the property-level TLA+ spec TraceTcp (prefix at every read, convergence after a loss-free phase); a profile with a late reader fills the receive buffer inside a segment; thorough: termination as a temporal property under fairness (no cycle of protocol steps).",
   note=TCP_NOTE, technique="TLA+ model checking (TLC) + spec-to-code replay + trace validation of real Tcb executions"),
 "C03": dict(level="model_checking", ref="DESIGN.md 7 C03",
   text="Same models with closes by either/both sides in every state, simultaneous open and an old duplicate SYN: RFC 9293 edges as an action "
        "property, sequence-number agreement of synchronised endpoints, no resets, data-before-FIN; real executions (TLC behaviours and random "
        "close schedules) validated by TraceTcp incl. release of both endpoints after a loss-free phase.",
   note=TCP_NOTE, technique="TLA+ model checking (TLC) + spec-to-code replay + trace validation of real Tcb executions"),
 "C12": dict(level="model_checking", ref="DESIGN.md 7 C12",
   text="(i) modular_cmp.rs transcribed on a ring Z_M and compared with the circular order for every a and every d < M/2 (M = 16, 32, 64, complete); "
        "the real primitives sampled on 2^32 (dense around 0, 2^31, 2^32) and validated by TraceModCmp. (ii) the TCB specification is ISN-free; every "
        "TLC behaviour is replayed on real Tcbs under 5 ISN pairs (wrap during handshake / transfer / FIN) and the normalised event streams must be identical; (iii) every random schedule of the profiles close, data, late and inject is executed again under five ISN pairs that wrap 0-100000 bytes into the connection, same comparison.",
   note=TCP_NOTE, technique="TLA+ model checking (TLC) of the comparison primitives + ISN-variant replay of TLC behaviours + trace validation"),
 "C17": dict(level="model_checking", ref="DESIGN.md 7 C17",
   text="TcpPair with forged segments (all 16 SYN/ACK/FIN/RST sets x seq around the window edges x ack around SND.UNA/NXT x windows x lengths) injected in "
        "every reachable state: window-edge invariant; real Tcbs under random forged segments (all 64 flag sets, far/near seq/ack, shrinking windows): "
        "no panic, no data beyond the advertised edge, new data inside SND.UNA+SND.WND, an in-sequence segment with an acceptable ACK sets the send window to the window it carries, unacceptable segments change neither state nor deliverable data (TraceTcp).",
   note=TCP_NOTE + " Known finding K4 (relaxed RCV.NXT-1 window) is reported as KNOWN-FINDING.",
   technique="TLA+ model checking (TLC) with an attacker action + trace validation of real Tcb executions under forged segments"),
}

FN_NOTE = "Trusted base: TLC, the hand-written specification and trace specification, the harness projection. The model is exhaustive for the scaled domain only; the real code is driven by seeded sampling (dense grid where stated)."
CHECKS.update({
 "C07": dict(level="model_checking", ref="DESIGN.md 7 C07",
   text="Message.tla: message.rs transcribed at chunk-window level (push_front / append / slice / cut / remove_front arithmetic) and checked by TLC to refine "
        "plain byte strings for every operation sequence of the bounded pool (incl. aliasing via clone/cut/concatenate); random histories on the real Message "
        "with every observable (len, iter, to_vec, Display, ==) of every pool member validated by TraceMessage.tla after each operation.",
   note=FN_NOTE, technique="TLA+ refinement check (TLC) + trace validation of real Message histories"),
 "C09": dict(level="model_checking", ref="DESIGN.md 7 C09",
   text="IpTable.tla: the code's mask-and-compare / ordered first-match lookup / range-to-network trick transcribed and checked by TLC against the definitions "
        "(longest-prefix match, id..broadcast membership, range intersection, aligned power-of-two blocks) for every table, network pair and address of the model "
        "width; the real IpTable / Ipv4Net / cidr_to_ip on 32-bit values (all mask lengths, boundary addresses) validated by TraceIpTable.tla on byte tuples.",
   note=FN_NOTE, technique="TLA+ model checking (TLC) + trace validation of real IpTable/Ipv4Net calls"),
 "C10": dict(level="model_checking", ref="DESIGN.md 7 C10",
   text="Frag.tla: RFC 791 fragmentation as a function; TLC checks the partition predicate for every original (offset, length 0..72, MF), DF and chain of <= 3 decreasing "
        "MTUs of the scaled domain (467k cases, complete); the real fragment() on a dense grid payload 0..600 x MTU 68..130 x DF/MF x chains plus 64 KiB cases, every "
        "returned piece compared with the specification and the partition predicate by TraceFrag.tla (payload bytes position-coded).",
   note=FN_NOTE, technique="TLA+ model checking (TLC) + trace validation of real fragment() calls"),
 "C11": dict(level="model_checking", ref="DESIGN.md 7 C11",
   text="Reasm.tla: receive_packet / maybe_cull_segment transcribed; TLC explores every arrival order of the pieces of two datagrams through two fragmentation chains with "
        "duplicates and every expiry-callback timing (complete-iff-covered, exact bytes, no leak); the real Reassembly under random interleavings, duplicates, overlapping "
        "chains and expiry callbacks validated by the property-level TraceReasm.tla.",
   note=FN_NOTE, technique="TLA+ model checking (TLC) + trace validation of real Reassembly executions"),
 "C15": dict(level="model_checking", ref="DESIGN.md 7 C15",
   text="IpGen.tla: the range-set algorithm of ip_generator.rs transcribed; TLC checks in-pool / disjointness / exact free set / real exhaustion for every history of fetch, "
        "return and block over all pools of a 3-bit space; the real IpGenerator under random histories in 64-address windows at 0.0.0.0, 255.255.255.192 and other bases "
        "validated by TraceIpGen.tla; Dhcp.tla: clients, server pool, offers / requests / acks / releases in any order with duplication, TLC checks distinct in-pool leases and that a client "
        "only adopts an address the server bound to it; a real DhcpServer with 1-12 real DhcpClients under delayed, reordered and duplicated DHCP frames validated by TraceDhcp.tla.",
   note=FN_NOTE, technique="TLA+ model checking (TLC) + trace validation of real IpGenerator histories and real DHCP server/client runs"),
})

NET_NOTE = FN_NOTE + " Full-stack runs use the real machines, protocols and networks on a paused current_thread tokio clock (virtual time); the frame hook of feature verif observes / drops frames."
CHECKS.update({
 "C04": dict(level="model_checking", ref="DESIGN.md 7 C04",
   text="Demux.tla: Udp::listen / Ipv4::listen and the two-stage demultiplexing of the code, checked by TLC against the endpoint rule (exact binding, else wildcard, never another "
        "port or specific address, second bind refused) for every bind history; real machines (Udp, Ipv4, optional Arp, Pci, three harness applications) exchanging datagrams, every "
        "bind result, every demux (application, payload, source and destination endpoint from Control), answers sent back through the session that delivered a datagram, and end-of-run completeness validated by TraceDemux.tla.",
   note=NET_NOTE, technique="TLA+ model checking (TLC) + trace validation of real full-stack UDP executions"),
 "C05": dict(level="model_checking", ref="DESIGN.md 7 C05",
   text="Link.tla: PciSession::send_pci and the steps of Network::send (permit, transmission time, latency, fan-out) with explicit time, all interleavings of concurrent sends "
        "(unicast/broadcast/unknown, MTU rule, no transmission overlap, not early, nothing lost); real Networks and taps (1-2 networks, several taps per machine, MTU boundary, "
        "constant/variable latency and throughput) under virtual time validated clause by clause by TraceLink.tla.",
   note=NET_NOTE, technique="TLA+ model checking (TLC) with explicit time + trace validation of real link executions"),
 "C06": dict(level="model_checking", ref="DESIGN.md 7 C06",
   text="Arp.tla: resolve() with gateway substitution, cache, learning from sender fields, the bounded retry loop and frame loss, all interleavings of up to 3 concurrent "
        "resolutions (correct owner, agreement, success when an exchange survives, failure for unclaimed addresses, no hang); real Arp instances with a seeded loss plan executed by "
        "the frame hook (random loss, and exact plans that let only the k-th request through), every resolution validated by TraceArp.tla against the recorded claims and ARP frames (failed resolutions are judged again at the end of the run).",
   note=NET_NOTE, technique="TLA+ model checking (TLC) + trace validation of real ARP executions with injected frame loss"),
})

CHECKS.update({
 "C13": dict(level="model_checking", ref="DESIGN.md 7 C13",
   text="Lifecycle.tla: protocols as init/arrive/release/post processes behind a barrier, shutdown requests through the bounded broadcast channel (first request wins), the timeout "
        "task and the outer T+1 timeout, all interleavings (barrier, returned status = first request, bound, no hang); real run_internet_with_timeout runs mixing scripted "
        "applications (slow, early/late/concurrent/bursting requests, hanging) with built-in protocols and applications, including empty machine sets, and run_internet runs without a timeout, under virtual time, validated by TraceLifecycle.tla.",
   note=NET_NOTE + " Known finding K6 (Forward opens its session before the barrier) is reported as KNOWN-FINDING.",
   technique="TLA+ model checking (TLC) + trace validation of real simulation runs under virtual time"),
})

CHECKS.update({
 "C16": dict(level="model_checking", ref="DESIGN.md 7 C16",
   text="Router.tla: hosts, gateways and static routers with TTL, all interleavings of forwarding under correct, missing and looping route tables (TTL bound, one decrement per hop, "
        "no multiplication, only the destination host receives, the networks fall silent); real ArpRouter topologies (lines, stars, rings, 2- and 3-router loops) where the specification "
        "walks each datagram along the recorded configuration and TraceRouter.tla compares the walk with the IPv4 frames seen on every network (decoded from the RFC layout) and the deliveries.",
   note=NET_NOTE, technique="TLA+ model checking (TLC) + trace validation of real router topologies"),
 "C20": dict(level="model_checking", ref="DESIGN.md 7 C20",
   text="Dns.tla: lookups with cache, queries from fresh ports, server replies copying identifier and name, client acceptance, any delivery order (right address, echo, cache correct, cached lookups "
        "silent, nothing lost); a real DnsServer and real DnsClients with every frame delayed randomly, lookups concurrent and repeated, names up to 250 characters, validated by TraceDns.tla.",
   note=NET_NOTE, technique="TLA+ model checking (TLC) + trace validation of real DNS executions with delayed frames"),
})

CHECKS.update({
 "C02": dict(level="model_checking", ref="DESIGN.md 7 C02",
   text="SockPipe.tla: the socket -> TcpSession -> TCB (abstract ordered pipe, C01) -> SocketSession -> Socket::recv pipeline with re-chunking, the accept backlog handed over in the code's two critical sections (atomic on the current_thread runtime, with deliveries in between on a multi_thread one) and the stored remainder, "
        "all interleavings (stream = concatenation of writes in order, recv(n) <= n, nothing dropped, complete); the as-found variants (task per write, recv budget, queue overflow) are "
        "refuted by TLC and were reproduced on the code (F2, F3, F25 repaired; K1 recorded). Real socket applications over the complete stack with jitter / bounded loss / duplicates on the "
        "current_thread runtime (virtual time) and on multi_thread runtimes with 2-16 workers, byte-budget and whole-message reads mixed on one socket, writes before accept, servers that speak first on the accepted connection, every read on either side validated by TraceSock.tla; accept() on the real SocketAPI against a thread that delivers meanwhile (sockrace-drive).",
   note=NET_NOTE + " Known finding K1 (255-slot socket queue drops stream bytes) is reported as KNOWN-FINDING.",
   technique="TLA+ model checking (TLC) + trace validation of real socket executions on both runtime flavours"),
})

CODEC_NOTE = ("Trusted base: TLC, Codec.tla / Ndl.tla (wire formats and grammar transcribed by hand), etherparse as the independent implementation, the harness. "
              "Level exploration: exhaustive only on the model's boundary lattice / tree family; the real code is sampled.")
CHECKS.update({
 "C08": dict(level="exploration", ref="DESIGN.md 7 C08",
   text="Codec.tla gives Enc/Dec of IPv4, UDP, TCP, ARP, DNS and DHCP at byte level from the RFC layouts; TLC proves round trip on a 65k-point boundary lattice and is then the reference "
        "evaluator for every recorded sample of the real encoders/decoders (boundary + random values, all 64 TCP flag sets) and of etherparse's bytes for the same fields (TraceCodec.tla).",
   note=CODEC_NOTE, technique="TLA+ wire-format reference evaluated by TLC on recorded encoder/decoder samples (trace validation)"),
 "C14": dict(level="exploration", ref="DESIGN.md 7 C14",
   text="(a) every real decoder on valid, truncated, field-mutated, random and extreme byte strings: never a panic, accepted exactly when Codec.tla's acceptance predicate holds, fields as the layout says; "
        "(b) NDL texts generated by Ndl.tla and mutated (token insertion/deletion, truncation - for the first descriptions at every length -, indentation, non-ASCII, keywords): core_parser never panics; (c) socket scenarios over the full stack with an "
        "attacker injecting frames undecodable at PCI/IPv4/UDP/TCP/ARP level: streams and datagrams unaffected, nothing crashes (TraceSock.tla).",
   note=CODEC_NOTE, technique="TLA+ acceptance predicates evaluated by TLC on recorded decoder/parser calls + trace validation of full-stack runs with injected frames"),
 "C18": dict(level="exploration", ref="DESIGN.md 7 C18",
   text="elvis-core built with compute_checksum (separate harness workspace): Codec.tla's RFC 1071 sum verifies every emitted IPv4/UDP/TCP checksum (payloads empty/odd/even/maximal and constructed 0xffff sums), "
        "the decoders accept etherparse-built packets, and single/double bit corruptions of reference packets are rejected exactly when the one's-complement sum changes (TraceCodec.tla, Checked = TRUE).",
   note=CODEC_NOTE, technique="TLA+ RFC 1071 reference evaluated by TLC on packets recorded from the compute_checksum build (trace validation)"),
 "C19": dict(level="exploration", ref="DESIGN.md 7 C19",
   text="Ndl.tla is generator and oracle: TLC enumerates 2352 description trees (send / forward to the same or another port / capture, ping-pong pairs, auto-protocol machines, one-address ranges), renders each in tab / 4-space / CRLF form in TLA+, computes the structure the parser must return, five one-error mutants and the "
        "meaning; hv-sim feeds every text to the real core_parser (structure compared, parsed twice) and every valid description to generate_and_run_sim (normal exit, messages on the wire); TraceNdl.tla judges.",
   note=CODEC_NOTE, technique="TLA+ generator/oracle (TLC enumeration) replayed on the real parser and simulation builder"),
})

NOT_APPLICABLE = {}
PENDING = ["C02", "C04", "C05", "C06", "C07", "C08", "C09", "C10", "C11", "C13", "C14", "C15", "C16", "C18", "C19", "C20"]

def main():
    checks = []
    for pid in sorted(CHECKS):
        c = CHECKS[pid]
        checks.append({
            "property_id": pid,
            "quick_cmd": "bin/check %s --tier quick" % pid,
            "thorough_cmd": "bin/check %s --tier thorough" % pid,
            "evidence_file": "/verif/evidence/%s.json" % pid,
            "replay_cmd_template": "bin/check %s --replay {path}" % pid,
            "engine": "tlc+harness",
            "level_claimed": {"category": c["level"], "text": c["text"], "design_ref": c["ref"]},
            "level_note": c["note"],
            "technique": c["technique"],
        })
    na = [{"property_id": p, "reason": r} for p, r in sorted(NOT_APPLICABLE.items())]
    na += [{"property_id": p, "reason": "not claimed yet: its specification and harness driver are still being built (see DESIGN.md 7); no check is registered"}
           for p in PENDING if p not in CHECKS and p not in NOT_APPLICABLE]
    m = {
        "version": 1,
        "setup_cmd": "bin/setup",
        "hooks": {
            "guard": "cargo feature `verif` of elvis-core (forwarded by the `verif` feature of elvis); off by default",
            "enable": "the harness workspaces under /verif/harness depend on /repo/sim/elvis-core and /repo/sim/elvis with features = [\"verif\"]",
            "baseline_off_cmd": "cd /repo/sim && cargo nextest run --workspace --no-fail-fast --test-threads 8 --offline",
            "source_commits": hook_commits(),
            "add_only": True,
        },
        "engines": [
            {"name": "tlc+harness", "path": "bin/check", "serves_properties": sorted(CHECKS),
             "kind_free_text": "TLA+ specifications under spec/ checked with TLC (exhaustive, simulation, trace validation); Rust harness under harness/ "
                               "replays TLC behaviours on the real code and records executions of the real code as NDJSON traces"},
        ],
        "checks": checks,
        "not_applicable": na,
        "notes": "Exit codes: 0 held, 1 VIOLATION (replay file under work/violations), 2 tool error. known_findings.json lists open findings "
                 "(printed as KNOWN-FINDING) and repaired defects (fixed: entries, suppress nothing).",
    }
    json.dump(m, open(os.path.join(ROOT, "MANIFEST.json"), "w"), indent=1)
    print("MANIFEST.json: %d checks, %d not claimed" % (len(checks), len(na)))

if __name__ == "__main__":
    main()
