"""C19 (a network description means what it says) and the NDL / full-stack parts of C14.
Ndl.tla is generator and oracle: TLC enumerates the tree family, renders every tree in three variants, computes the
structure the parser must return, the one-error mutants and the meaning; hv-sim feeds the texts to the real
core_parser and generate_and_run_sim; TraceNdl.tla judges the reports."""
import json, os, re
from vlib import *

NDL_CFG = "SPECIFICATION Spec\nINVARIANTS Emit SameShape\nCHECK_DEADLOCK FALSE\n"


def generate_cases(out):
    c = os.path.join(workdir("cfg"), "ndl.cfg")
    open(c, "w").write(NDL_CFG)
    meta = workdir("tlc-ndl")
    rc, o = java_tlc(["-workers", "1", "-metadir", meta, "-cleanup", "-noGenerateSpecTE", "-config", c, "Ndl.tla"], 900)
    sh(["rm", "-rf", meta])
    res = parse_tlc(o)
    if not res["finished"]:
        raise ToolError("Ndl.tla enumeration failed: %s" % (res["error"] or o[-800:]))
    cases = []
    for l in o.splitlines():
        m = re.match(r'<<"NDLCASE", "(.*)">>$', l.strip())
        if m:
            cases.append(json.loads(json.loads('"' + m.group(1) + '"')))
    out.cov["states"] += res["distinct"]
    out.cov["transitions"] += res["states"]
    out.cov["model_runs"].append({"config": "Ndl.tla tree family (count x destination form x port form x message x networks x forwarder (same / other port) x argument order x ARP; ping-pong pairs)",
                                  "distinct_states": res["distinct"], "complete": True})
    return cases


def judge(out, prop, path, driver):
    res = tlc_trace("TraceNdl.tla", os.path.join(SPEC, "TraceNdl.cfg"), path, "tn-" + prop)
    n = 0
    for b in res["result"]["bad"]:
        p, clause = b["clause"].split("|", 1)
        if p != prop:
            continue
        out.violation("%s (event %s)" % (clause, b["i"]), {"driver": driver, "event": b, "spec": "TraceNdl"})
        n += 1
    out.cov["evaluations"] += res["result"]["events"]
    return res


def run_ndl(prop, tier, seed, out):
    build_harness(("hv-sim",))
    d = workdir("fn-" + prop)
    log("[%s] Ndl.tla: TLC enumerates the description trees, renders them and computes the expected structure" % prop)
    cases = generate_cases(out)
    if tier == "quick" and prop != "C19":
        # C14: a seeded random quarter of the family (a fixed stride would alias with the dimensions of the family);
        # C19 runs the whole family in both tiers (it takes half a minute)
        import random
        rng = random.Random(seed)
        cases = [cases[i] for i in sorted(rng.sample(range(len(cases)), len(cases) // 4))]
    cp = os.path.join(d, "ndl-cases.ndjson")
    write_ndjson(cp, cases)
    tmp = os.path.join(d, "tmp")
    pp = os.path.join(d, "ndl-parse.ndjson")
    args = ["ndl-parse", "--in", cp, "--out", pp, "--dir", tmp, "--seed", str(seed), "--mutations", "12" if prop == "C14" else "2"]
    st = hv(HV_SIM, args)
    judge(out, prop, pp, args)
    log("  %d descriptions x 3 renderings parsed, 5 one-error mutants each, arbitrary mutations: %d parser calls judged" % (len(cases), st["events"]))
    out.cov["traces_validated_against_impl"] += len(cases)
    out.cov["distinct_nontrivial"] += len(cases)
    if prop == "C19":
        rp = os.path.join(d, "ndl-run.ndjson")
        rargs = ["ndl-run", "--in", cp, "--out", rp, "--dir", tmp]
        # (no description of the family crashes the unchanged generator; a changed one that crashes a third of 2388 runs would cost 40 minutes of restarts)
        hv_resumable(HV_SIM, rargs, len(cases), max_restarts=60)
        judge(out, prop, rp, rargs)
        log("  %d valid descriptions built and run: exit status and messages on the network judged" % len(cases))
    out.cov["samples"] += [{"tree": cases[0]["tree"], "text": cases[0]["texts"][1]["text"], "mutant": cases[0]["mutants"][0]}]


def run_c14_parts(tier, seed, out):
    log("[C14] NDL texts mutated arbitrarily (token insertion, deletion, truncation, indentation, non-ASCII, keywords): the parser never panics")
    run_ndl("C14", tier, seed, out)
    import checks_net
    log("[C14] frames whose headers fail to decode are dropped at that layer (full stack)")
    checks_net.run_c14_frames(tier, seed, out)


def run(prop, tier, seed, out, replay=None):
    out.level = "exploration"
    out.assumptions = ["the tree family of Ndl.tla is finite (1-2 networks, 2-3 machines, counts 1-3, send_message / forward / capture / ping_pong, optional ARP)",
                       "semantic errors of a description (unknown names, unavailable addresses) are outside the property: the generator asserts on them"]
    if replay:
        r = json.load(open(replay))
        build_harness(("hv-sim",))
        a = r["driver"]
        if a[0] == "ndl-run":
            cases = sum(1 for _ in open(os.path.join(ROOT, a[a.index("--in") + 1])))
            hv_resumable(HV_SIM, a, cases)
        else:
            hv(HV_SIM, a)
        judge(out, prop, a[a.index("--out") + 1], a)
        return
    run_ndl("C19", tier, seed, out)
    out.cov["rule"] = ("every tree of the Ndl.tla family in tab / 4-space / CRLF renderings, parsed twice; five one-error mutants per tree; "
                       "every description also built and run; distinct = trees")
    out.cov["exhaustive"] = True
