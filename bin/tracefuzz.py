#!/usr/bin/env python3
"""Binding self-test of the trace specifications (not a registered check).

Takes traces that the quick checks recorded from the unchanged tree (work/...), corrupts each a little
(a numeric field off by one, a flag flipped, an event removed / repeated / moved, a value replaced by
another one seen for the same key) and validates the corrupted trace with the property-level trace
specification.  Two things are measured:
  * robustness: a trace specification must be a total function of the trace -- it must never make TLC
    abort with an evaluation error (a tool error is not a verdict, so a change of the code that drives the
    specification outside its domain would go unreported);
  * binding: how many corruptions the specification rejects (a specification that accepts everything
    constrains nothing).
usage: tracefuzz.py [--n 24] [--seed 1] [--only TraceX] [--events 2500]
"""
import sys, os, json, random, copy, concurrent.futures as cf
sys.path.insert(0, os.path.dirname(os.path.abspath(__file__)))
from vlib import ROOT, SPEC, WORK, tlc_trace, ToolError, workdir

TABLE = [
    # module, cfg, trace (relative to work/), env
    ("TraceTcp", "TraceTcp.cfg", "tcp-C03/close.trace.ndjson", None),
    ("TraceTcp", "TraceTcp.cfg", "tcp-C17/inject.trace.ndjson", None),
    ("TraceModCmp", "TraceModCmp.cfg", "tcp-C12/modcmp.ndjson", None),
    ("TraceFrag", "TraceFrag.cfg", "ip-C10/frag.ndjson", None),
    ("TraceReasm", "TraceReasm.cfg", "ip-C11/reasm.ndjson", None),
    ("TraceMessage", "TraceMessage.cfg", "fn-C07/msg-drive.ndjson", None),
    ("TraceIpTable", "TraceIpTable.cfg", "fn-C09/iptab-drive.ndjson", None),
    ("TraceIpGen", "TraceIpGen.cfg", "fn-C15/ipgen-drive.ndjson", None),
    ("TraceDhcp", "TraceDhcp.cfg", "fn-C15/dhcp.ndjson", None),
    ("TraceLink", "TraceLink.cfg", "fn-C05/link-drive.ndjson", None),
    ("TraceDemux", "TraceDemux.cfg", "fn-C04/udp-drive.ndjson", None),
    ("TraceArp", "TraceArp.cfg", "fn-C06/arp-drive.ndjson", None),
    ("TraceLifecycle", "TraceLifecycle.cfg", "fn-C13/life-drive.ndjson", None),
    ("TraceRouter", "TraceRouter.cfg", "fn-C16/router-drive.ndjson", None),
    ("TraceDns", "TraceDns.cfg", "fn-C20/dns-drive.ndjson", None),
    ("TraceSock", "TraceSock.cfg", "fn-C02/sock-drive.ndjson", None),
    ("TraceCodec", "TraceCodec.cfg", "fn-C08/codec-drive.ndjson", None),
    ("TraceCodec", "TraceCodec.cfg", "fn-C14/decode-drive.ndjson", None),
    ("TraceTcpLayer", "TraceTcpLayer.cfg", "fn-X01/tcpl-drive.ndjson", None),
]
SKIP_KEYS = {"run", "i"}


def load_prefix(path, max_events):
    """whole runs from the start of the file, at most max_events events"""
    evs, cut = [], 0
    with open(path) as f:
        for line in f:
            if not line.strip():
                continue
            e = json.loads(line)
            if e.get("ev") == "reset" and len(evs) > 0:
                cut = len(evs)
                if cut >= max_events:
                    break
            evs.append(e)
            if len(evs) > 4 * max_events:
                break
    return evs[:cut] if cut else evs


def leaves(v, path=()):
    if isinstance(v, dict):
        for k, x in v.items():
            if not path and k in SKIP_KEYS:
                continue
            yield from leaves(x, path + (k,))
    elif isinstance(v, list):
        for k, x in enumerate(v):
            yield from leaves(x, path + (k,))
    else:
        yield path, v


def setp(v, path, x):
    for k in path[:-1]:
        v = v[k]
    v[path[-1]] = x


def corrupt(evs, rng):
    evs = copy.deepcopy(evs)
    idx = [k for k, e in enumerate(evs) if e.get("ev") != "reset"]
    kind = rng.choice(["num", "num", "num", "bool", "del", "dup", "swap", "str"])
    k = rng.choice(idx)
    what = kind
    if kind in ("num", "bool", "str"):
        want = {"num": (int,), "bool": (bool,), "str": (str,)}[kind]
        for _ in range(50):
            k = rng.choice(idx)
            ls = [(p, x) for p, x in leaves(evs[k]) if type(x) in want and p != ("ev",)]
            if ls:
                break
        else:
            kind, what = "del", "del"
        if kind != "del":
            p, x = rng.choice(ls)
            if kind == "num":
                nx = x + rng.choice([-1, 1, 1, 2, -2, 7])
            elif kind == "bool":
                nx = not x
            else:
                pool = sorted({y for e in evs for q, y in leaves(e) if q == p and isinstance(y, str) and y != x})
                if not pool:
                    nx = x + "x"
                else:
                    nx = rng.choice(pool)
            setp(evs[k], p, nx)
            what = "%s %s: %r -> %r (event %s/%s)" % (kind, ".".join(map(str, p)), x, nx, evs[k].get("run"), evs[k].get("i"))
    if kind == "del":
        what = "del event %s/%s %s" % (evs[k].get("run"), evs[k].get("i"), evs[k].get("ev"))
        del evs[k]
    elif kind == "dup":
        what = "dup event %s/%s %s" % (evs[k].get("run"), evs[k].get("i"), evs[k].get("ev"))
        evs.insert(k, copy.deepcopy(evs[k]))
    elif kind == "swap":
        j = k + 1
        if j < len(evs) and evs[j].get("ev") != "reset":
            what = "swap events %s/%s and next" % (evs[k].get("run"), evs[k].get("i"))
            evs[k], evs[j] = evs[j], evs[k]
        else:
            what = "del event %s/%s" % (evs[k].get("run"), evs[k].get("i"))
            del evs[k]
    return evs, what


def one(job):
    module, cfg, path, env, what, tag = job
    try:
        r = tlc_trace(module + ".tla", os.path.join(SPEC, cfg), path, tag, timeout=600, env=env)
        # violations tagged [Kn] are the open known findings that the unchanged tree's traces contain
        bad = [b for b in r["result"].get("bad", []) if not str(b.get("clause", "")).split("|")[-1].lstrip().startswith("[K")]
        return (module, what, "rejected" if bad else "accepted", "")
    except ToolError as e:
        return (module, what, "error", str(e)[:1500])


def main():
    a = sys.argv[1:]
    opt = lambda k, d: (a[a.index(k) + 1] if k in a else d)
    n, seed, only, maxev = int(opt("--n", 24)), int(opt("--seed", 1)), opt("--only", None), int(opt("--events", 2500))
    d = workdir("fuzz")
    jobs = []
    for module, cfg, rel, env in TABLE:
        if only and module != only:
            continue
        src = os.path.join(WORK, rel)
        if not os.path.exists(src):
            print("skip %s: %s not recorded (run the quick check first)" % (module, rel))
            continue
        evs = load_prefix(src, maxev)
        base = os.path.join(d, "%s-%s-base.ndjson" % (module, rel.replace("/", "_")))
        with open(base, "w") as f:
            for e in evs:
                f.write(json.dumps(e) + "\n")
        jobs.append((module, cfg, base, env, "BASE " + rel, "fz-%s-b%d" % (module, len(jobs))))
        rng = random.Random(seed * 1000003 + hash(rel) % 1000)
        for k in range(n):
            ce, what = corrupt(evs, rng)
            p = os.path.join(d, "%s-%s-%d.ndjson" % (module, rel.replace("/", "_"), k))
            with open(p, "w") as f:
                for e in ce:
                    f.write(json.dumps(e) + "\n")
            jobs.append((module, cfg, p, env, what, "fz-%s-%d-%d" % (module, len(jobs), k)))
    stats = {}
    errors = []
    with cf.ThreadPoolExecutor(max_workers=8) as ex:
        for module, what, verdict, msg in ex.map(one, jobs):
            s = stats.setdefault(module, {"rejected": 0, "accepted": 0, "error": 0, "base": None, "accepted_list": []})
            if what.startswith("BASE"):
                s["base"] = verdict
                if verdict != "accepted":
                    errors.append((module, what, verdict, msg))
                continue
            s[verdict] += 1
            if verdict == "error":
                errors.append((module, what, verdict, msg))
            if verdict == "accepted":
                s["accepted_list"].append(what)
    for m, s in stats.items():
        print("%-15s base=%s rejected=%d accepted=%d error=%d" % (m, s["base"], s["rejected"], s["accepted"], s["error"]))
    for m, s in stats.items():
        for w in s["accepted_list"][:6]:
            print("   accepted by %s: %s" % (m, w))
    for e in errors:
        print("ERROR", e[0], e[1], "\n", e[3][:900])
    json.dump(stats, open(os.path.join(d, "summary.json"), "w"), indent=1)
    return 1 if errors else 0


if __name__ == "__main__":
    sys.exit(main())
