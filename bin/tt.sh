#!/bin/sh
# dev helper: drive a profile and validate the trace.  usage: tt.sh profile seed runs steps
prof=$1; seed=${2:-11}; runs=${3:-150}; steps=${4:-100}
cd /verif
./harness/target/debug/hv-core tcb-drive --seed $seed --runs $runs --profile $prof --steps $steps --out work/t-$prof.ndjson --sched work/s-$prof.ndjson
(cd spec && TRACE=/verif/work/t-$prof.ndjson JAVA_TOOL_OPTIONS="-Xss1g -Dtlc2.tool.queue.IStateQueue=StateDeque" timeout 900 tlc -workers 1 -metadir /verif/work/tlc-tt-$prof -cleanup -noGenerateSpecTE -config TraceTcp.cfg TraceTcp.tla 2>&1 | grep -E "TRACE-|Error|error|Finished in" > /verif/work/o-$prof.txt)
python3 - $prof <<'PY'
import sys,json,re
prof=sys.argv[1]
txt=open(f'/verif/work/o-{prof}.txt').read()
m=re.search(r'<<"TRACE-RESULT", "(.*)">>',txt)
if not m: print(txt[:3000]); sys.exit()
r=json.loads(json.loads('"'+m.group(1)+'"'))
print(prof, 'nbad',r['nbad'], 'runs',r['runs'], 'events',r['events'], re.findall(r'Finished in \w+',txt))
for b in sorted(r['bad'],key=lambda b:(b['clause'],b['run'])): print('  ',b['property'],b['run'],b['i'],b['ev'],b['clause'][:130])
PY
