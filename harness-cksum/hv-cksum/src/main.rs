//! hv-cksum: the codec drivers of hv-core compiled against elvis-core with `compute_checksum` (C18).
#[path = "../../../harness/hv-core/src/codech.rs"]
mod codech;
#[path = "../../../harness/hv-core/src/tcbh.rs"]
#[allow(dead_code)]
mod tcbh;
pub use hv_common::util;
use util::*;

fn main() {
    let argv: Vec<String> = std::env::args().skip(1).collect();
    if argv.is_empty() {
        eprintln!("usage: hv-cksum <codec-drive|decode-drive> --checked [--key value]...");
        std::process::exit(2);
    }
    let args = Args::parse(&argv[1..]);
    match argv[0].as_str() {
        "codec-drive" => codech::drive(&args),
        "decode-drive" => codech::decode_drive(&args),
        other => {
            eprintln!("unknown command {other}");
            std::process::exit(2);
        }
    }
}
